"""Drive the *real* generator of /repo's working tree, one generation per fresh (forked) interpreter.

generate(job) runs ariadne_codegen.main.client / graphql_schema on inputs written to a scratch
directory (removed before returning) and returns the emitted files as strings.
pkg_eval(files, code) imports an emitted package in a fresh interpreter and runs `code` against it
(used for import checks and for replaying solver counterexamples on real pydantic).
"""
from __future__ import annotations

import concurrent.futures as cf
import contextlib
import io
import json
import multiprocessing as mp
import os
import shutil
import subprocess
import sys
import tempfile
import traceback
from typing import Any, Callable, Dict, Iterable, List, Optional

_CTX = None
SCRATCH_BASE = os.environ.get("VERIF_SCRATCH") or "/tmp"


def ctx():
    global _CTX
    if _CTX is None:
        _CTX = mp.get_context("forkserver")
        _CTX.set_forkserver_preload(["vlib.preload"])
    return _CTX


def ncores() -> int:
    try:
        return max(1, min(16, len(os.sched_getaffinity(0))))
    except AttributeError:
        return 8


def pmap(fn: Callable, jobs: Iterable, workers: Optional[int] = None, fresh: bool = True) -> List:
    """map in forked children; fresh=True gives every job its own process (pristine module state)."""
    jobs = list(jobs)
    if not jobs:
        return []
    workers = min(workers or ncores(), len(jobs))
    kw = {"max_tasks_per_child": 1} if fresh else {}
    with cf.ProcessPoolExecutor(max_workers=workers, mp_context=ctx(), **kw) as ex:
        return list(ex.map(fn, jobs))


def _write_tree(base: str, spec, default_name: str) -> str:
    """spec: str (single file) or {relpath: content} (directory). returns path to pass in config."""
    if isinstance(spec, str):
        p = os.path.join(base, default_name)
        with open(p, "w", encoding="utf-8") as f:
            f.write(spec)
        return p
    d = os.path.join(base, default_name + "_dir")
    os.makedirs(d, exist_ok=True)
    items = spec.items() if isinstance(spec, dict) else spec  # list of pairs keeps creation order
    for rel, content in items:
        p = os.path.join(d, rel)
        os.makedirs(os.path.dirname(p), exist_ok=True)
        with open(p, "w", encoding="utf-8") as f:
            f.write(content)
    return d


def _snapshot(path: str) -> Dict[str, str]:
    out = {}
    if os.path.isfile(path):
        return {os.path.basename(path): open(path, encoding="utf-8", errors="surrogateescape").read()}
    for root, _dirs, files in os.walk(path):
        for fn in files:
            if fn.endswith(".pyc"):
                continue
            p = os.path.join(root, fn)
            out[os.path.relpath(p, path)] = open(p, encoding="utf-8", errors="surrogateescape").read()
    return out


def generate(job: dict) -> dict:
    """Runs in a fresh child.  job keys: schema, queries, config, files, strategy, preexisting, url_stub."""
    base = tempfile.mkdtemp(prefix="vgen_", dir=SCRATCH_BASE)
    res: Dict[str, Any] = {"ok": False, "exc_type": None, "exc_msg": None, "tb": None, "files": {}, "listed": None, "stdout": ""}
    cwd = os.getcwd()
    try:
        os.chdir(base)
        section = dict(job.get("config") or {})
        strategy = job.get("strategy", "client")
        if job.get("schema") is not None:
            section.setdefault("schema_path", _write_tree(base, job["schema"], "schema.graphql"))
        if job.get("queries") is not None:
            section.setdefault("queries_path", _write_tree(base, job["queries"], "queries.graphql"))
        for name, content in (job.get("files") or {}).items():
            with open(os.path.join(base, name), "w", encoding="utf-8") as f:
                f.write(content)
        if "files_to_include" in section:
            section["files_to_include"] = [os.path.join(base, n) if not os.path.isabs(n) else n for n in section["files_to_include"]]
        if "base_client_file_path" in section and not os.path.isabs(section["base_client_file_path"]):
            section["base_client_file_path"] = os.path.join(base, section["base_client_file_path"])
        if strategy == "client":
            section.setdefault("target_package_path", base)
            section.setdefault("target_package_name", "gcl")
            section.setdefault("include_comments", "none")
            target = os.path.join(section["target_package_path"], section["target_package_name"])
        else:
            section.setdefault("target_file_path", os.path.join(base, "out_schema.py"))
            target = section["target_file_path"]
        for rel, content in (job.get("preexisting") or {}).items():
            p = os.path.join(target, rel) if strategy == "client" else target
            if os.path.dirname(p):
                os.makedirs(os.path.dirname(p), exist_ok=True)
            with open(p, "w", encoding="utf-8") as f:
                f.write(content)
        if job.get("plugins_path"):
            sys.path.insert(0, job["plugins_path"])
        sys.path.insert(0, base)
        # legacy_section: the deprecated top-level [ariadne-codegen] table instead of [tool.ariadne-codegen]
        config_dict = {"ariadne-codegen": section} if job.get("legacy_section") else {"tool": {"ariadne-codegen": section}}
        res["config_before"] = json.dumps(config_dict, sort_keys=True, default=str)
        out = io.StringIO()
        import warnings

        from ariadne_codegen import main as _main

        if job.get("introspection") is not None:
            _install_httpx_stub(job["introspection"], res)
        with contextlib.redirect_stdout(out), warnings.catch_warnings():
            warnings.simplefilter("ignore")
            try:
                if strategy == "client":
                    _main.client(config_dict)
                else:
                    _main.graphql_schema(config_dict)
                res["ok"] = True
            except BaseException as e:  # noqa: BLE001 - we report everything, incl. SystemExit
                res["exc_type"] = type(e).__module__ + "." + type(e).__name__
                res["exc_mro"] = [c.__module__ + "." + c.__name__ for c in type(e).__mro__]
                res["exc_msg"] = str(e)[:2000]
                res["tb"] = "".join(traceback.format_exception(type(e), e, e.__traceback__)[-6:])[-3000:]
        res["stdout"] = out.getvalue()
        res["config_after"] = json.dumps(config_dict, sort_keys=True, default=str)
        if os.path.exists(target):
            res["files"] = _snapshot(target)
            res["target_exists"] = True
        else:
            res["target_exists"] = False
        if "Generated files:" in res["stdout"]:
            tail = res["stdout"].split("Generated files:\n", 1)[1]
            res["listed"] = [ln.strip() for ln in tail.splitlines() if ln.strip()]
    except BaseException as e:  # noqa: BLE001
        res["harness_exc"] = "".join(traceback.format_exception(type(e), e, e.__traceback__))[-3000:]
    finally:
        os.chdir(cwd)
        shutil.rmtree(base, ignore_errors=True)
    return res


def _install_httpx_stub(spec: dict, res: dict):
    """Replace httpx.post (as seen by ariadne_codegen.schema) by a stub answering the introspection query
    from an SDL executed by graphql-core (spec['sdl']) or with a canned response."""
    import httpx

    from ariadne_codegen import schema as sch

    def post(url, **kw):
        res.setdefault("http_calls", []).append({"url": url, "headers": kw.get("headers"), "verify": kw.get("verify"), "json_keys": sorted((kw.get("json") or {}).keys())})
        if spec.get("raise") == "InvalidURL":
            raise httpx.InvalidURL("bad url")
        if "sdl" in spec:
            from graphql import build_schema, graphql_sync

            r = graphql_sync(build_schema(spec["sdl"]), kw["json"]["query"])
            body = {"data": r.data}
            return httpx.Response(200, json=body, request=httpx.Request("POST", url))
        if "text" in spec:
            return httpx.Response(spec.get("status", 200), content=spec["text"].encode(), request=httpx.Request("POST", url))
        return httpx.Response(spec.get("status", 200), json=spec.get("json"), request=httpx.Request("POST", url))

    sch.httpx.post = post  # same module object as httpx; restored never (fresh process)


def pkg_eval(job: dict) -> dict:
    """Import an emitted package in this fresh child and run job['code'] (source defining main(pkgname, arg))."""
    base = tempfile.mkdtemp(prefix="vpkg_", dir=SCRATCH_BASE)
    res: Dict[str, Any] = {"ok": False}
    try:
        pkg = job.get("pkg", "gcl")
        pdir = os.path.join(base, pkg)
        for rel, content in job["files"].items():
            p = os.path.join(pdir, rel)
            if os.path.dirname(p):
                os.makedirs(os.path.dirname(p), exist_ok=True)
            with open(p, "w", encoding="utf-8") as f:
                f.write(content)
        for name, content in (job.get("extra") or {}).items():
            with open(os.path.join(base, name), "w", encoding="utf-8") as f:
                f.write(content)
        sys.path.insert(0, base)
        sys.dont_write_bytecode = True
        mods = [pkg] + [n[:-3] for n in (job.get("extra") or {}) if n.endswith(".py")]
        for k in [k for k in sys.modules if any(k == m or k.startswith(m + ".") for m in mods)]:
            del sys.modules[k]
        importlib_invalidate()
        ns: Dict[str, Any] = {}
        exec(compile(job["code"], "<pkg_eval>", "exec"), ns)
        import warnings

        with warnings.catch_warnings():
            warnings.simplefilter("ignore")
            res["result"] = ns["main"](pkg, job.get("arg"))
        res["ok"] = True
    except BaseException as e:  # noqa: BLE001
        res["exc_type"] = type(e).__name__
        res["exc_msg"] = str(e)[:2000]
        res["tb"] = "".join(traceback.format_exception(type(e), e, e.__traceback__)[-5:])[-3000:]
    finally:
        if base in sys.path:
            sys.path.remove(base)
        try:
            mods = [job.get("pkg", "gcl")] + [n[:-3] for n in (job.get("extra") or {}) if n.endswith(".py")]
            for k in [k for k in sys.modules if any(k == m or k.startswith(m + ".") for m in mods)]:
                del sys.modules[k]
        except Exception:  # noqa: BLE001
            pass
        shutil.rmtree(base, ignore_errors=True)
    return res


def importlib_invalidate():
    import importlib

    importlib.invalidate_caches()


IMPORT_CODE = r'''
import importlib, pkgutil, sys
def main(pkg, arg):
    out = {"modules": {}, "incomplete": [], "all": None, "dir": None}
    top = importlib.import_module(pkg)
    out["all"] = list(getattr(top, "__all__", []))
    out["dir"] = sorted(n for n in vars(top) if not n.startswith("_"))
    import os
    pdir = os.path.dirname(top.__file__)
    for fn in sorted(os.listdir(pdir)):
        if fn.endswith(".py") and fn != "__init__.py":
            name = fn[:-3]
            try:
                m = importlib.import_module(pkg + "." + name)
                out["modules"][name] = "ok"
                from pydantic import BaseModel
                for k, v in vars(m).items():
                    if isinstance(v, type) and issubclass(v, BaseModel) and v.__module__ == m.__name__:
                        if not v.__pydantic_complete__:
                            try:
                                v.model_rebuild()
                            except Exception as e:
                                pass
                            if not v.__pydantic_complete__:
                                out["incomplete"].append(name + "." + k)
            except BaseException as e:
                out["modules"][name] = type(e).__name__ + ": " + str(e)[:300]
    return out
'''


def run_subprocess_generation(job: dict, hashseed: Optional[int] = None, timeout: int = 120) -> dict:
    """Same as generate() but in a real fresh interpreter so PYTHONHASHSEED can be set (C10 replay)."""
    env = dict(os.environ)
    env["PYTHONPATH"] = "/verif" + (":" + os.environ["VERIF_REPO"] if os.environ.get("VERIF_REPO") else "")
    if hashseed is not None:
        env["PYTHONHASHSEED"] = str(hashseed)
    p = subprocess.run(
        [sys.executable, "-c", "import sys,json; from vlib import gen; print('\\n@@RESULT@@'+json.dumps(gen.generate(json.load(sys.stdin))))"],
        input=json.dumps(job), capture_output=True, text=True, env=env, timeout=timeout,
    )
    if "@@RESULT@@" not in p.stdout:
        return {"ok": False, "harness_exc": p.stderr[-2000:]}
    return json.loads(p.stdout.split("@@RESULT@@", 1)[1])
