"""Worker for the E-Z response-side checks (C01 accept/faith, C05 strictness, C08 fragment classes).

analyze(job) runs in a fresh child: real generation -> extraction -> import of the emitted package ->
per operation: z3 queries, every sat model replayed on the real pydantic model + graphql-core executor.
"""
from __future__ import annotations

import ast
import importlib
import os
import shutil
import sys
import tempfile
import time
import traceback
from typing import Any, Dict, List, Optional

import z3
from graphql import GraphQLList, GraphQLNonNull, build_schema, get_named_type, is_abstract_type, is_composite_type, parse

from . import ez, gen, replay
from .extract import Package

MAX_ITER = 40
MAX_NEW = 3


def match_known(known: List[dict], sig: dict) -> Optional[dict]:
    from .boot import _match_val

    for e in known:
        if e.get("status") != "open":
            continue
        mm = e.get("match", {})
        if mm and all(_match_val(sig.get(k), v) for k, v in mm.items()):
            return e
    return None


class PkgRuntime:
    """the emitted package, really imported in this (fresh) process"""

    def __init__(self, files: Dict[str, str], pkgname: str = "gcl"):
        self.base = tempfile.mkdtemp(prefix="vrt_", dir=gen.SCRATCH_BASE)
        self.pkgname = pkgname
        pdir = os.path.join(self.base, pkgname)
        for rel, content in files.items():
            p = os.path.join(pdir, rel)
            os.makedirs(os.path.dirname(p), exist_ok=True)
            with open(p, "w", encoding="utf-8") as f:
                f.write(content)
        sys.path.insert(0, self.base)
        sys.dont_write_bytecode = True
        self.ns: Dict[str, Any] = {}
        exec(compile(replay.VALIDATE_CODE, "<validate>", "exec"), self.ns)
        self.ns_imp: Dict[str, Any] = {}
        exec(compile(gen.IMPORT_CODE, "<import>", "exec"), self.ns_imp)

    def import_report(self) -> dict:
        try:
            return self.ns_imp["main"](self.pkgname, None)
        except BaseException as e:  # noqa: BLE001
            return {"modules": {"__init__": f"{type(e).__name__}: {str(e)[:300]}"}, "incomplete": [], "all": None, "dir": None}

    def validate(self, module: str, model: str, payload) -> dict:
        return self.ns["main"](self.pkgname, {"items": [{"module": module, "model": model, "payload": payload}]})[0]

    def close(self):
        shutil.rmtree(self.base, ignore_errors=True)


def type_shape(t) -> str:
    return str(t)


def absence_cause(node_obj, vi, key) -> str:
    ent = node_obj.variants[vi].get(key)
    if ent is None:
        return "key_not_selected_for_runtime_type"
    p, cond, sub, ftype, fname = ent
    if cond is None:
        return "unconditional"
    return "conditional"


def directive_site(ctx, node_obj, vi, key) -> str:
    """is the skip/include that makes `key` conditional attached to the field itself or to an enclosing fragment?"""
    # recompute the entries of this key
    # (entries are not stored; derive from the field nodes collected again)
    return "unknown"


def solver_for(ctx, *formulas):
    s = z3.Solver()
    s.set("timeout", 60000)
    s.add(*ctx.side)
    s.add(*formulas)
    return s


def check_sat(s, stats):
    t0 = time.time()
    r = s.check()
    dt = time.time() - t0
    stats["solver_s"] += dt
    stats[str(r)] = stats.get(str(r), 0) + 1
    return str(r)


def analyze(job: dict) -> dict:
    out: Dict[str, Any] = {"findings": [], "stats": {"solver_s": 0.0, "sat": 0, "unsat": 0, "unknown": 0, "ops": 0, "nodes": 0, "holes": 0, "replays": 0, "oracle_runs": 0},
                           "inconclusive": [], "harness_errors": [], "samples": [], "gen": None}
    rt = None
    try:
        res = gen.generate(job)
        out["gen"] = {k: res.get(k) for k in ("ok", "exc_type", "exc_msg", "tb", "listed")}
        if res.get("harness_exc"):
            out["harness_errors"].append("generation harness: " + res["harness_exc"][-400:])
            return out
        if not res["ok"]:
            return out  # generation failures are judged by C04; callers may also look at out["gen"]
        files = res["files"]
        out["files_n"] = len(files)
        pkg = Package(files)
        rt = PkgRuntime(files)
        imp = rt.import_report()
        out["import"] = imp
        bad = {k: v for k, v in imp["modules"].items() if v != "ok"}
        if bad or imp["incomplete"]:
            out["import_failed"] = True
            return out
        schema = build_schema(job["schema"] if isinstance(job["schema"], str) else "\n".join(job["schema"].values()))
        sdl = job["schema"] if isinstance(job["schema"], str) else "\n".join(job["schema"].values())
        modes = set(job.get("modes_override") or job.get("modes") or ["accept", "faith", "strict"])
        known = job.get("known") or []
        for mi in pkg.client_methods(job.get("config", {}).get("client_file_name", "client")):
            if mi.query is None or mi.model is None:
                continue
            if job.get("ops") and mi.operation_name not in job["ops"]:
                continue
            try:
                analyze_method(job, sdl, schema, pkg, rt, mi, modes, known, out)
            except ez.Unsupported as e:
                out["inconclusive"].append(f"{mi.name}: annotation construct without semantics: {e}")
    except BaseException as e:  # noqa: BLE001
        out["harness_errors"].append("analyze: " + "".join(traceback.format_exception(type(e), e, e.__traceback__))[-1500:])
    finally:
        if rt is not None:
            rt.close()
    return out


def sub_payload(ctx, m, r, n):
    """concrete JSON at node n under model m"""
    return ez.concretize(ctx, m, n)


def finding(out, job, mi, sig, what, payload, dirvars, extra=None) -> None:
    out["findings"].append({
        "sig": sig, "what": what,
        "replay": {"schema": job["schema"], "queries": job["queries"], "config": job.get("config") or {}, "method": mi.name,
                   "model": mi.model, "payload": payload, "dirvars": dirvars, **(extra or {})},
    })


def analyze_method(job, sdl, schema, pkg: Package, rt: PkgRuntime, mi, modes, known, out):
    stats = out["stats"]
    doc = parse(mi.query)
    from graphql import specified_rules, validate as _validate

    errs = _validate(schema, doc, specified_rules)
    if errs:
        # the document the client sends is not even valid for the user's schema: no conformant server returns data for it
        for q in sorted(modes & {"accept", "strict", "frag"})[:1]:
            finding(out, job, mi, {"q": q, "problem": "sent_document_invalid"}, f"the document sent by {mi.name} is invalid against the schema: {errs[0].message[:200]}", None, {}, {"q": "sent_document"})
        return
    ctx = ez.Ctx(schema, doc, pkg, L=job.get("L", 2), opname=mi.operation_name)
    r = ez.root(ctx)
    stats["ops"] += 1
    stats["nodes"] += len(ctx.nodes)
    client_mod = job.get("config", {}).get("client_file_name", "client")
    ci = pkg.resolve(client_mod, mi.model)
    if ci is None:
        out["inconclusive"].append(f"{mi.name}: model {mi.model} not found in emitted modules")
        return
    up, dn = ez.Pyd(ctx, +1), ez.Pyd(ctx, -1)
    C = ez.conf(ctx, r, r.expect)
    A_up = up.acc_class(ci, r)
    A_dn = dn.acc_class(ci, r)
    model_ann = ast.Name(id=mi.model)
    # a class / base class the extractor cannot find is a modelling gap, never a silent "accepts anything"
    for u in sorted(set(up.unknown_used) | set(dn.unknown_used)):
        if u.startswith(("type:", "base:")):
            out["harness_errors"].append(f"{mi.name}: annotation refers to {u} which the extractor cannot resolve; the acceptance model would be vacuous here")
        elif f"{mi.name}: {u}" not in out["inconclusive"]:
            out.setdefault("approximated", []).append(f"{mi.name}: {u}")

    def oracle(m):
        stats["oracle_runs"] += 1
        tree = ez.concretize_rt(ctx, m, r)
        ok, data, errs = replay.server_can_return(sdl, mi.query, mi.operation_name, ez.dirvar_values(ctx, m), tree)
        return ok, data, errs

    def real(payload):
        stats["replays"] += 1
        return rt.validate(ci.module, ci.name, payload)

    # vacuity guard: a conformant response exists and graphql-core agrees it is one
    s0 = solver_for(ctx, C)
    if check_sat(s0, stats) != "sat":
        out["harness_errors"].append(f"{mi.name}: Conf unsatisfiable (vacuous skeleton)")
        return
    m0 = s0.model()
    ok, data, errs = oracle(m0)
    if not ok:
        out["harness_errors"].append(f"{mi.name}: encoding says conformant, graphql-core executor returns something else: payload={ez.concretize(ctx, m0, r)} data={data} errors={errs[:2]}")
        return
    if len(out["samples"]) < 3:
        out["samples"].append({"op": mi.operation_name, "nodes": len(ctx.nodes), "conformant_witness": ez.concretize(ctx, m0, r)})

    # ---------------- Q1: conformant but rejected
    if "accept" in modes:
        s = solver_for(ctx, C, z3.Not(A_up))
        new = 0
        for _ in range(MAX_ITER):
            res = check_sat(s, stats)
            if res == "unsat":
                break
            if res != "sat":
                out["inconclusive"].append(f"{mi.name}: Q1 solver {res}")
                break
            m = s.model()
            payload = ez.concretize(ctx, m, r)
            ok, data, errs = oracle(m)
            rr = real(payload)
            if not ok or rr["accepted"]:
                out["harness_errors"].append(f"{mi.name}: Q1 counterexample does not replay (oracle_conformant={ok}, pydantic_accepted={rr['accepted']}) payload={payload}")
                break
            culprits = ez.explain(up, m, model_ann, r, client_mod)
            c = culprits[0] if culprits else {"node": r, "reason": "unknown"}
            sig = {"q": "accept", "reason": c["reason"]}
            if c["reason"] == "missing":
                sig["absence"] = absence_cause(c["node"], c["variant"], c["key"])
                ent = c["node"].variants[c["variant"]].get(c["key"])
                sig["key_is_typename"] = c["key"] == "__typename" or (ent is not None and ent[4] == "__typename")
                if ent is not None:
                    sig["directive_site"] = "fragment" if ent[2].fragcond else "field"
                    sig["selected_via"] = ez.via_class(ctx, ent[2])
                cn = c["node"]
                if len([e for e in (cn.entries or []) if e[1].selection_set is not None]) > 1 and cn.parent is not None:
                    sig["parent_key_selected_repeatedly"] = True
                if ent is None:
                    # the object lacking the key was itself selected inside a named fragment (the fragment's text is what is sent)
                    spreads = [step[1] for via in (cn.via or []) for step in via if step[0] == "spread"]
                    sig["object_inside_named_fragment"] = bool(spreads)
                    if spreads:
                        # is that fragment kept as a class of the fragments module (base class), or was it unpacked where it is spread?
                        from ariadne_codegen.utils import str_to_pascal_case as _pascal

                        _fm = job.get("config", {}).get("fragments_module_name", "fragments")
                        sig["fragment_kept_as_class"] = all(_fm in pkg.modules and pkg.resolve(_fm, _pascal(f)) is not None for f in spreads)
                block = ent[0] if ent is not None else z3.Not(z3.And(c["node"].live, c["node"].rt == c["variant"]))
            else:
                n = c["node"]
                sig.update({"expect": type_shape(n.expect), "ann": c.get("ann"), "value_kind": c.get("kind")})
                block = z3.Not(z3.And(n.live, ez.kind_pred(n, c["kind"]))) if c.get("kind") else z3.BoolVal(False)
            sig["pydantic_error"] = (rr.get("errors") or [{}])[0].get("type")
            what = f"conformant response rejected by {mi.model}: {rr.get('errors', [])[:2]} payload={payload}"
            e = match_known(known, sig)
            finding(out, job, mi, sig, what, payload, ez.dirvar_values(ctx, m), {"q": "accept"})
            if e is None:
                new += 1
                if new >= MAX_NEW:
                    break
            s.add(block)

    # ---------------- Q2: conformant, accepted, but not faithfully exposed / dumped
    if "faith" in modes:
        F_up = up.faith(model_ann, r, client_mod)
        s = solver_for(ctx, C, A_dn, z3.Not(F_up))
        new = 0
        for _ in range(MAX_ITER):
            res = check_sat(s, stats)
            if res == "unsat":
                break
            if res != "sat":
                out["inconclusive"].append(f"{mi.name}: Q2 solver {res}")
                break
            m = s.model()
            payload = ez.concretize(ctx, m, r)
            ok, data, errs = oracle(m)
            rr = real(payload)
            problems = list(rr.get("problems") or [])
            # enum positions must hold enum members
            for lf in rr.get("leaf") or []:
                n, _, _ = ez.node_at(ctx, m, r, lf["path"])
                if n is not None and n.expect is not None:
                    from graphql import GraphQLEnumType

                    if isinstance(get_named_type(n.expect), GraphQLEnumType) and not lf["is_enum"]:
                        problems.append({"path": lf["path"], "kind": "enum_not_member"})
            if not ok or not rr["accepted"] or not problems:
                out["harness_errors"].append(f"{mi.name}: Q2 counterexample does not replay (conformant={ok}, accepted={rr['accepted']}, problems={problems}) payload={payload}")
                break
            pb = problems[0]
            n, par, vi = ez.node_at(ctx, m, r, pb["path"])
            sig = {"q": "faith", "problem": pb["kind"]}
            if pb["kind"] == "key_not_exposed" and par is not None:
                ent = par.variants[vi].get(pb["path"][-1])
                block = z3.Not(z3.And(par.live, par.rt == vi, ent[0]))
                sig["key_is_typename"] = pb["path"][-1] == "__typename"
                sig["selected_via"] = ez.via_class(ctx, ent[2])
                if len([e for e in (par.entries or []) if e[1].selection_set is not None]) > 1 and par.parent is not None:
                    sig["parent_key_selected_repeatedly"] = True
            elif pb["kind"] == "dump_extra_key":
                sig["value"] = pb.get("value")
                block = z3.Not(z3.And(*[v == m.eval(v, model_completion=True) for v in ctx.dirvars.values()])) if ctx.dirvars else z3.BoolVal(False)
                if par is not None and vi is not None:
                    block = z3.Or(block, z3.Not(z3.And(par.live, par.rt == vi)))
            elif n is not None:
                tag = m.eval(n.tag, model_completion=True).as_long()
                sig.update({"expect": type_shape(n.expect), "value_kind": ez.tag_kind(ctx, tag)})
                block = z3.Not(z3.And(n.live, n.tag == tag))
            else:
                block = z3.BoolVal(False)
            what = f"validated object of {mi.model} does not reproduce the response: {problems[:2]} payload={payload}"
            e = match_known(known, sig)
            finding(out, job, mi, sig, what, payload, ez.dirvar_values(ctx, m), {"q": "faith"})
            if e is None:
                new += 1
                if new >= MAX_NEW:
                    break
            s.add(block)

    # ---------------- Q8: fragment classes are honoured as base types
    if "frag" in modes:
        from ariadne_codegen.utils import str_to_pascal_case

        fmod = job.get("config", {}).get("fragments_module_name", "fragments")
        prs = up.pairs(model_ann, r, client_mod)
        for n in ctx.nodes:
            for fname, fvi in qualifying_spreads(ctx, n):
                stats["frag_sites"] = stats.get("frag_sites", 0) + 1
                vguard = z3.BoolVal(True) if fvi is None else (n.rt == fvi)
                fci = pkg.resolve(fmod, str_to_pascal_case(fname)) if fmod in pkg.modules else None
                site = {"fragment": fname, "position": "/".join(map(str, n.path)), "on": get_named_type(n.expect).name, "variant": None if fvi is None else n.poss[fvi].name}
                if fci is None:
                    sig = {"q": "frag", "problem": "fragment_class_missing", "fragments_module_exists": fmod in pkg.modules}
                    finding(out, job, mi, sig, f"fragment {fname} is directly spread at {site['position']} but its class is not defined in {fmod}.py", None, {}, {"q": "frag", **site})
                    continue
                # (i) the class pydantic selects for this node is a subclass of F's class
                for g, ci2, n2 in prs:
                    if n2 is not n or pkg.is_subclass(ci2, fci):
                        continue
                    s = solver_for(ctx, C, n.live, g, vguard)
                    res = check_sat(s, stats)
                    if res == "sat":
                        m = s.model()
                        payload = ez.concretize(ctx, m, r)
                        rr = rt.validate(ci.module, ci.name, payload)
                        sig = {"q": "frag", "problem": "not_instance_of_fragment_class", "abstract_position": is_abstract_type(get_named_type(n.expect)),
                               "fragment_on": "position_type" if fvi is None else "runtime_object_type"}
                        if not rr["accepted"]:
                            break
                        finding(out, job, mi, sig, f"object at {site['position']} is validated by {ci2.name}, which is not a subclass of {fci.name}; payload={payload}", payload,
                                ez.dirvar_values(ctx, m), {"q": "frag", **site, "selected_class": ci2.name})
                        break
                    if res != "unsat":
                        out["inconclusive"].append(f"{mi.name}: Q8 solver {res}")
                # (ii) F's class alone validates every conformant sub-payload
                AF = up.acc_class(fci, n)
                s = solver_for(ctx, C, n.live, vguard, z3.Not(n.is_null()), z3.Not(AF))
                res = check_sat(s, stats)
                if res == "sat":
                    m = s.model()
                    payload = ez.concretize(ctx, m, r)
                    sub = payload
                    for el in [p for p in n.path]:
                        pass
                    subp = sub_payload(ctx, m, r, n)
                    rr = rt.validate(fci.module, fci.name, subp)
                    ok, _d, _e = oracle(m)
                    if not ok or rr["accepted"]:
                        out["harness_errors"].append(f"{mi.name}: Q8 counterexample does not replay (conformant={ok}, fragment class accepted={rr['accepted']}) sub-payload={subp}")
                    else:
                        sig = {"q": "frag", "problem": "fragment_class_rejects", "pydantic_error": (rr.get("errors") or [{}])[0].get("type")}
                        finding(out, job, mi, sig, f"{fci.name} alone rejects the sub-payload at {site['position']}: {rr.get('errors', [])[:2]} sub-payload={subp}", payload,
                                ez.dirvar_values(ctx, m), {"q": "frag", **site, "sub_payload": subp})
                elif res != "unsat":
                    out["inconclusive"].append(f"{mi.name}: Q8b solver {res}")

    # ---------------- image of configured custom scalars: "Any only for unconfigured custom scalars"
    conf_scalars = set((job.get("config") or {}).get("scalars") or {})
    if conf_scalars and ("strict" in modes or "image" in modes):
        import ast as _ast

        for g, ci2, n2 in up.pairs(model_ann, r, client_mod):
            if n2.variants is None:
                continue
            for f in pkg.all_fields(ci2).values():
                for vi, var in enumerate(n2.variants):
                    ent = var.get(f.key)
                    if ent is None or ent[2].expect is None:
                        continue
                    if get_named_type(ent[2].expect).name not in conf_scalars:
                        continue
                    names = {x.id for x in _ast.walk(ez.Pyd.norm(f.ann)) if isinstance(x, _ast.Name)}
                    if "Any" not in names:
                        continue
                    s = solver_for(ctx, C, ent[2].live, g, n2.rt == vi)
                    if check_sat(s, stats) == "sat":
                        sig = {"q": "strict", "corruption": "image", "problem": "configured_scalar_typed_any", "class_module": ci2.module}
                        finding(out, job, mi, sig, f"{ci2.module}.{ci2.name}.{f.name} is annotated {_ast.unparse(f.ann)} although scalar {get_named_type(ent[2].expect).name} is configured with a type", None, {}, {"q": "image"})
                    break

    # ---------------- Q5: single-point corruptions that are accepted
    if "strict" in modes:
        holes = corruption_holes(ctx, r)
        stats["holes"] += len(holes)
        for h in holes:
            Ch = ez.conf(ctx, r, r.expect, h["hole"])
            s = solver_for(ctx, Ch, h["live"], A_dn)
            new = 0
            for _ in range(MAX_ITER):
                res = check_sat(s, stats)
                if res == "unsat":
                    break
                if res != "sat":
                    out["inconclusive"].append(f"{mi.name}: Q5 solver {res}")
                    break
                m = s.model()
                payload = ez.concretize(ctx, m, r)
                ok, data, errs = oracle(m)
                rr = real(payload)
                if ok or not rr["accepted"]:
                    out["harness_errors"].append(f"{mi.name}: Q5 counterexample does not replay (server_can_return={ok}, accepted={rr['accepted']}) corruption={h['cls']} payload={payload}")
                    break
                n = h["at"]
                sig = {"q": "strict", "corruption": h["cls"], "expect": type_shape(n.expect) if n.expect is not None else None,
                       "named": str(get_named_type(n.expect)) if n.expect is not None else None, "selected_via": ez.via_class(ctx, n)}
                sig["leaf"] = leaf_class(n.expect)
                if n.mixed_cond:
                    sig["mixed_conditionality"] = True
                if n.parent is not None and len([e for e in (n.parent.entries or []) if e[1].selection_set is not None]) > 1 and n.parent.parent is not None:
                    sig["parent_key_selected_repeatedly"] = True
                if h["cls"] == "kind":
                    tag = m.eval(n.tag, model_completion=True).as_long()
                    sig["value_kind"] = ez.tag_kind(ctx, tag)
                    sig["value"] = repr(ctx.atom_value(tag)) if tag < ctx.T_LIST else sig["value_kind"]
                    block = n.tag != tag
                elif h["cls"] == "typename":
                    tag = m.eval(n.tag, model_completion=True).as_long()
                    val = ctx.atom_value(tag)
                    par = n.parent
                    ptype = get_named_type(par.expect)
                    sig["position"] = "abstract" if is_abstract_type(ptype) else ("root" if par is r else "object")
                    vt = schema.type_map.get(val)
                    sig["value_is"] = ("own_abstract_type" if val == ptype.name and is_abstract_type(ptype) else "other_abstract_type" if vt is not None and is_abstract_type(vt)
                                       else "other_object_type" if vt is not None else "not_a_type")
                    sig["value"] = val
                    block = n.tag != tag
                else:
                    block = z3.BoolVal(False)
                what = f"{mi.model} accepts a payload no conformant server can return ({h['cls']} at {'/'.join(map(str, n.path))}): {payload}"
                e = match_known(known, sig)
                finding(out, job, mi, sig, what, payload, ez.dirvar_values(ctx, m), {"q": "strict", "corruption": h["cls"]})
                if e is None:
                    new += 1
                    if new >= MAX_NEW:
                        break
                s.add(block)


def qualifying_spreads(ctx, node):
    """fragments F directly spread (without @skip/@include) by a selection set that is evaluated for exactly F's type, F without
    inline fragments -> list of (fragment name, variant index | None).  A selection set at an abstract position is evaluated
    for the runtime object type, so a fragment on object type T qualifies for the variant T (variant index), a fragment on
    the position's own type qualifies for every variant (None).  Recurses through such fragments' own selection sets."""
    from graphql import FragmentSpreadNode, InlineFragmentNode

    if node.expect is None or node.variants is None:
        return []
    tname = get_named_type(node.expect).name
    rt_names = {p.name: i for i, p in enumerate(node.poss or [])}
    found = []
    # (selection set, variant scope, declared type the selection set is evaluated for)
    todo = [(e[1].selection_set, None, tname) for e in node.entries if e[1].selection_set is not None]
    seen = set()
    single_object = len(rt_names) == 1 and tname in rt_names
    while todo:
        ss, vi, ctype = todo.pop()
        for sel in ss.selections:
            if any(d.name.value in ("skip", "include") for d in sel.directives or ()):
                continue
            if isinstance(sel, InlineFragmentNode):
                # a selection set under `... on TC` is evaluated for TC: spreads of fragments on exactly TC qualify there
                tc = sel.type_condition.name.value if sel.type_condition else ctype
                if tc == ctype:
                    todo.append((sel.selection_set, vi, ctype))
                elif single_object or vi is not None:
                    todo.append((sel.selection_set, vi, tc))  # a supertype condition on a position whose runtime type is fixed
                elif ctype == tname and tc in rt_names and len(rt_names) > 1:
                    todo.append((sel.selection_set, rt_names[tc], tc))
                continue
            if isinstance(sel, FragmentSpreadNode):
                fd = ctx.frags[sel.name.value]
                tc = fd.type_condition.name.value
                if tc == ctype:
                    v2 = vi
                elif ctype == tname and vi is None and tc in rt_names and len(rt_names) > 1:
                    v2 = rt_names[tc]
                elif ctype == tname and vi is not None and tc == node.poss[vi].name:
                    v2 = vi
                else:
                    continue
                if any(isinstance(x, InlineFragmentNode) for x in fd.selection_set.selections):
                    continue
                if (sel.name.value, v2) not in seen:
                    seen.add((sel.name.value, v2))
                    found.append((sel.name.value, v2))
                    todo.append((fd.selection_set, v2, tc))
    return found


def leaf_class(t) -> str:
    from graphql import GraphQLEnumType, GraphQLScalarType

    if t is None:
        return "none"
    if isinstance(t, GraphQLNonNull):
        t = t.of_type
    if isinstance(t, GraphQLList):
        return "list"
    if is_composite_type(t):
        return "composite"
    if isinstance(t, GraphQLEnumType):
        return "enum"
    if isinstance(t, GraphQLScalarType) and t.name in ez.SPEC_SCALARS:
        return "spec_scalar"
    return "custom_scalar"


def corruption_holes(ctx: ez.Ctx, r) -> List[dict]:
    """the four corruption classes of the property, one hole per (node, class)"""
    holes = []
    for n in ctx.nodes:
        if n is r or n.expect is None:
            continue
        nn = isinstance(n.expect, GraphQLNonNull)
        t = n.expect.of_type if nn else n.expect
        conditional = n.cond is not None  # key made optional by @skip/@include somewhere
        is_typename = n.fname == "__typename"
        # (a) null where non-null and not conditional
        if nn and not conditional:
            holes.append({"cls": "null", "at": n, "live": n.live, "hole": {"node": n, "f": n.is_null()}})
        # (c) another JSON kind
        if isinstance(t, GraphQLList):
            wrong = z3.And(z3.Not(n.is_null()), z3.Not(n.is_list()))
        elif is_composite_type(t):
            wrong = z3.And(z3.Not(n.is_null()), z3.Not(n.is_obj()))
        else:
            tags = ez.leaf_conf_tags(ctx, t)
            if tags is None:
                wrong = None
            else:
                from graphql import GraphQLEnumType

                if isinstance(t, GraphQLEnumType) or is_typename:
                    wrong = z3.And(z3.Not(n.is_null()), z3.Not(n.is_str()))
                else:
                    # JSON has one number kind: an integral float (2.0) where Int is expected is not "another kind"
                    same_kind = tags + ([7] if t.name == "Int" else [])
                    wrong = z3.And(z3.Not(n.is_null()), z3.Not(n.in_tags(same_kind)))
        if wrong is not None:
            holes.append({"cls": "kind", "at": n, "live": n.live, "hole": {"node": n, "f": wrong}})
        # (d) __typename that is not a possible type of the position
        if is_typename and n.parent is not None:
            names = [p.name for p in n.parent.poss]
            holes.append({"cls": "typename", "at": n, "live": n.live,
                          "hole": {"node": n, "f": z3.And(n.is_str(), z3.Not(n.str_in(names)))}})
        # (b) unconditional selected key removed
        if n.parent is not None and n.parent.variants is not None and not conditional:
            for vi, var in enumerate(n.parent.variants):
                for key, ent in var.items():
                    if ent[2] is n:
                        plive = z3.And(n.parent.live, n.parent.is_obj(), n.parent.rt == vi)
                        holes.append({"cls": "missing", "at": n, "live": plive, "hole": {"obj": n.parent, "variant": vi, "key": key}})
    return holes
