"""Entry point: python -m vlib.run <ID> [--tier quick|thorough] [--replay file]"""
import argparse
import importlib
import json
import os
import sys
import traceback

from vlib import boot


def main():
    ap = argparse.ArgumentParser()
    ap.add_argument("pid")
    ap.add_argument("--tier", default=os.environ.get("VERIF_TIER") or "quick", choices=["quick", "thorough"])
    ap.add_argument("--replay", default=None)
    a = ap.parse_args()
    mod = importlib.import_module(f"checks.{a.pid}")
    if a.replay:
        data = json.load(open(a.replay))
        ok = mod.replay(data["replay"])
        print("replay:", "violation reproduced" if not ok else "no violation")
        sys.exit(boot.EXIT_VIOLATION if not ok else boot.EXIT_OK)
    rep = boot.Report(a.pid, a.tier, mod.LEVEL)
    try:
        mod.run(rep, a.tier)
    except boot.HarnessError as e:
        rep.harness_error(str(e))
    except Exception:  # machinery bug: never a verdict
        traceback.print_exc()
        rep.harness_error("uncaught exception in check: " + traceback.format_exc(limit=3).strip().splitlines()[-1])
    sys.exit(rep.finish())


if __name__ == "__main__":
    main()
