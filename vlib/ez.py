"""E-Z: symbolic JSON response skeleton + GraphQL conformance (Conf) + pydantic acceptance (Acc) + faithfulness.

All formulas are finite-domain (Int tags with small ranges, Bools).  The GraphQL side is a direct
implementation of CollectFields / CompleteValue over the *sent* query; the pydantic side interprets the
annotation language found in the emitted modules.  Leaf coercion behaviour of pydantic is *measured* on the
installed pydantic (lax_table), not assumed.
"""
from __future__ import annotations

import ast
from typing import Any, Dict, List, Optional, Tuple

import z3
from graphql import (
    FieldNode,
    FragmentDefinitionNode,
    FragmentSpreadNode,
    GraphQLEnumType,
    GraphQLList,
    GraphQLNonNull,
    GraphQLObjectType,
    GraphQLScalarType,
    GraphQLSchema,
    InlineFragmentNode,
    OperationDefinitionNode,
    VariableNode,
    get_named_type,
    is_abstract_type,
    is_composite_type,
)

from .extract import ClassInfo, FieldInfo, Package

FIXED_ATOMS: List[Any] = [None, True, False, 7, 1, 0, 1.5, 2.0]
T_NULL = 0
BASE_STRS = ["abc", "12", "1.5", "true", ""]
SPEC_SCALARS = {"Int", "Float", "String", "ID", "Boolean"}


class Unsupported(Exception):
    """annotation construct without semantics here -> the operation is reported inconclusive, never judged."""


def T(x):
    return z3.BoolVal(bool(x))


def Or(xs):
    xs = list(xs)
    return z3.Or(*xs) if xs else z3.BoolVal(False)


def And(xs):
    xs = list(xs)
    return z3.And(*xs) if xs else z3.BoolVal(True)


# ------------------------------------------------------------------------------------------------------
_LAX_CACHE: Dict[Tuple[str, str], Tuple[bool, Any]] = {}


def lax(pytype: str, value) -> Tuple[bool, Any]:
    """Measured: does the installed pydantic accept `value` for a field annotated `pytype` (python mode, lax)?"""
    key = (pytype, repr(value))
    if key not in _LAX_CACHE:
        from pydantic import TypeAdapter

        ta = TypeAdapter({"str": str, "int": int, "float": float, "bool": bool, "Any": Any}[pytype])
        try:
            _LAX_CACHE[key] = (True, ta.validate_python(value))
        except Exception:  # noqa: BLE001 pydantic ValidationError
            _LAX_CACHE[key] = (False, None)
    return _LAX_CACHE[key]


class Ctx:
    def __init__(self, schema: GraphQLSchema, doc, pkg: Package, L: int = 2, opname: Optional[str] = None):
        self.schema, self.pkg, self.L = schema, pkg, L
        self.frags = {d.name.value: d for d in doc.definitions if isinstance(d, FragmentDefinitionNode)}
        ops = [d for d in doc.definitions if isinstance(d, OperationDefinitionNode)]
        self.op = next((o for o in ops if o.name and o.name.value == opname), ops[0]) if ops else None
        strs = list(BASE_STRS) + ["Bogus"]
        for n, t in schema.type_map.items():
            if n.startswith("__"):
                continue
            strs.append(n)
            if isinstance(t, GraphQLEnumType):
                strs.extend(t.values.keys())
        self.strs = list(dict.fromkeys(strs))
        self.sidx = {s: i for i, s in enumerate(self.strs)}
        self.S0 = len(FIXED_ATOMS)
        self.T_LIST = self.S0 + len(self.strs)
        self.T_OBJ = self.T_LIST + 1
        self.n = 0
        self.side: List[Any] = []
        self.dirvars: Dict[str, Any] = {}
        self.nodes: List["Node"] = []
        self.unsupported: List[str] = []
        # configured custom scalars whose Python type is a plain builtin: the values the caller/server deals in are that type's
        self.scalar_domain: Dict[str, str] = {}

    def fresh(self, pfx, sort="int"):
        self.n += 1
        return z3.Int(f"{pfx}_{self.n}") if sort == "int" else z3.Bool(f"{pfx}_{self.n}")

    def dirvar(self, name):
        if name not in self.dirvars:
            self.dirvars[name] = z3.Bool("var_" + name)
        return self.dirvars[name]

    def atom_value(self, tag: int):
        return FIXED_ATOMS[tag] if tag < self.S0 else self.strs[tag - self.S0]

    def tags_where(self, pred) -> List[int]:
        return [t for t in range(self.T_LIST) if pred(self.atom_value(t))]


class Node:
    def __init__(self, ctx: Ctx, path, expect, live):
        self.ctx = ctx
        self.path = path
        self.expect = expect  # GraphQL type expected by the schema at this position (None for opaque helpers)
        self.live = live
        self.tag = ctx.fresh("t")
        ctx.side.append(z3.And(self.tag >= 0, self.tag <= ctx.T_OBJ))
        self.nonempty = ctx.fresh("ne", "bool")  # content of an *opaque* list/object: [] / [7], {} / {"k": 7}
        self.llen = None
        self.elems: Optional[List["Node"]] = None
        self.rt = None
        self.poss: Optional[List[GraphQLObjectType]] = None
        self.variants: Optional[List[Dict[str, tuple]]] = None
        self.cond = None  # presence condition this node's key has in a conformant response
        self.fname = None
        self.parent: Optional["Node"] = None
        self.pvar = None
        self.via: List[tuple] = []
        self.fragcond = False
        self.mixed_cond = False
        self.entries: List[tuple] = []
        ctx.nodes.append(self)

    # kind predicates
    def is_null(self):
        return self.tag == T_NULL

    def in_tags(self, tags):
        return Or(self.tag == t for t in tags)

    def is_bool(self):
        return z3.Or(self.tag == 1, self.tag == 2)

    def is_int(self):
        return z3.And(self.tag >= 3, self.tag <= 5)

    def is_float(self):
        return z3.Or(self.tag == 6, self.tag == 7)

    def is_str(self):
        return z3.And(self.tag >= self.ctx.S0, self.tag < self.ctx.T_LIST)

    def is_list(self):
        return self.tag == self.ctx.T_LIST

    def is_obj(self):
        return self.tag == self.ctx.T_OBJ

    def str_in(self, values):
        return Or(self.tag == self.ctx.S0 + self.ctx.sidx[v] for v in values if v in self.ctx.sidx)


class ConstNode:
    """concrete helper node standing for the element 7 of an opaque list / value of an opaque object"""

    def __init__(self, ctx: Ctx):
        self.ctx = ctx
        self.tag = z3.IntVal(3)
        self.nonempty = z3.BoolVal(False)
        self.llen = None
        self.elems = None
        self.rt = None
        self.poss = None
        self.variants = None
        self.expect = None
        self.live = z3.BoolVal(True)

    is_null = Node.is_null
    in_tags = Node.in_tags
    is_bool = Node.is_bool
    is_int = Node.is_int
    is_float = Node.is_float
    is_str = Node.is_str
    is_list = Node.is_list
    is_obj = Node.is_obj
    str_in = Node.str_in


# ------------------------------------------------------------------------------------------------------
# skeleton from the sent query
def directive_cond(ctx: Ctx, directives):
    c = []
    for d in directives or ():
        if d.name.value in ("skip", "include"):
            v = d.arguments[0].value
            b = ctx.dirvar(v.name.value) if isinstance(v, VariableNode) else z3.BoolVal(bool(v.value))
            c.append(z3.Not(b) if d.name.value == "skip" else b)
    return (z3.And(*c) if len(c) > 1 else c[0]) if c else None


def cand(a, b):
    if a is None:
        return b
    if b is None:
        return a
    return z3.And(a, b)


def collect(ctx: Ctx, rt: GraphQLObjectType, sels, out=None):
    """sels: list of (cond|None, selection_set, via, fragcond).  via = type conditions of the fragments traversed,
    fragcond = a skip/include on an enclosing fragment contributes to cond.
    -> ordered dict key -> list of (cond|None, FieldNode, via, fragcond)."""
    out = {} if out is None else out
    for c0, ss, via, fragcond in sels:
        for s in ss.selections:
            own = directive_cond(ctx, s.directives)
            c = cand(c0, own)
            if isinstance(s, FieldNode):
                key = s.alias.value if s.alias else s.name.value
                out.setdefault(key, []).append((c, s, via, fragcond))
            else:
                if isinstance(s, FragmentSpreadNode):
                    fd = ctx.frags[s.name.value]
                    tc, sub = fd.type_condition.name.value, fd.selection_set
                    step = ("spread", s.name.value, tc)
                else:
                    tc, sub = (s.type_condition.name.value if s.type_condition else None), s.selection_set
                    step = ("inline", None, tc)
                if tc is not None:
                    t = ctx.schema.type_map[tc]
                    if not (t is rt or (is_abstract_type(t) and ctx.schema.is_sub_type(t, rt))):
                        continue
                collect(ctx, rt, [(c, sub, via + (step,), fragcond or own is not None)], out)
    return out


def build(ctx: Ctx, typ, entries, path, live) -> Node:
    node = Node(ctx, path, typ, live)
    node.entries = entries
    t = typ.of_type if isinstance(typ, GraphQLNonNull) else typ
    if isinstance(t, GraphQLList):
        node.llen = ctx.fresh("len")
        ctx.side.append(z3.And(node.llen >= 0, node.llen <= ctx.L))
        node.elems = []
        for i in range(ctx.L):
            e = build(ctx, t.of_type, entries, path + (i,), z3.And(live, node.is_list(), i < node.llen))
            e.parent = node
            node.elems.append(e)
    elif is_composite_type(t):
        poss = list(ctx.schema.get_possible_types(t)) if is_abstract_type(t) else [t]
        node.rt = ctx.fresh("rt")
        ctx.side.append(z3.And(node.rt >= 0, node.rt < len(poss)))
        node.poss, node.variants = poss, []
        for i, rt in enumerate(poss):
            grouped = collect(ctx, rt, [(c, e[1].selection_set, (), False) for c, e in [(e[0], e) for e in entries] if e[1].selection_set])
            var = {}
            for key, ents in grouped.items():
                fname = ents[0][1].name.value
                ftype = GraphQLNonNull(ctx.schema.type_map["String"]) if fname == "__typename" else rt.fields[fname].type
                conds = [e[0] for e in ents]
                pres_cond = None if any(c is None for c in conds) else Or(conds)
                p = ctx.fresh("p", "bool")
                sub = build(ctx, ftype, ents, path + (rt.name, key), z3.And(live, node.is_obj(), node.rt == i, p))
                sub.cond, sub.fname, sub.parent, sub.pvar = pres_cond, fname, node, p
                sub.mixed_cond = any(c is None for c in conds) and any(c is not None for c in conds)
                sub.via = [e[2] for e in ents]
                sub.fragcond = any(e[3] for e in ents)
                var[key] = (p, pres_cond, sub, ftype, fname)
            node.variants.append(var)
    return node


def root(ctx: Ctx) -> Node:
    rt = {"query": ctx.schema.query_type, "mutation": ctx.schema.mutation_type, "subscription": ctx.schema.subscription_type}[ctx.op.operation.value]
    fake = FieldNode(name=None, selection_set=ctx.op.selection_set)
    return build(ctx, GraphQLNonNull(rt), [(None, fake, (), False)], (), z3.BoolVal(True))


# ------------------------------------------------------------------------------------------------------
# GraphQL side.  hole = {"node": Node, "f": formula}  or {"obj": Node, "variant": i, "key": k}
def conf(ctx: Ctx, node: Node, typ, hole=None):
    if hole is not None and hole.get("node") is node:
        return hole["f"]
    if isinstance(typ, GraphQLNonNull):
        return z3.And(z3.Not(node.is_null()), conf_inner(ctx, node, typ.of_type, hole))
    return z3.Or(node.is_null(), conf_inner(ctx, node, typ, hole))


def leaf_conf_tags(ctx: Ctx, t) -> Optional[List[int]]:
    """tags a conformant server may emit for non-null leaf type t; None = anything (custom scalar)"""
    if isinstance(t, GraphQLEnumType):
        return [ctx.S0 + ctx.sidx[v] for v in t.values]
    if isinstance(t, GraphQLScalarType):
        if t.name == "Int":
            return [3, 4, 5]
        if t.name == "Float":
            return [3, 4, 5, 6, 7]
        if t.name in ("String", "ID"):
            return list(range(ctx.S0, ctx.T_LIST))
        if t.name == "Boolean":
            return [1, 2]
        dom = ctx.scalar_domain.get(t.name)
        if dom == "str":
            return list(range(ctx.S0, ctx.T_LIST))
        if dom == "int":
            return [3, 4, 5]
        return None
    raise AssertionError(t)


def conf_inner(ctx: Ctx, node: Node, t, hole=None):
    if isinstance(t, GraphQLList):
        return z3.And(node.is_list(), *[z3.Implies(i < node.llen, conf(ctx, node.elems[i], t.of_type, hole)) for i in range(ctx.L)])
    if not is_composite_type(t):
        tags = leaf_conf_tags(ctx, t)
        if tags is None:
            return z3.Not(node.is_null())
        return node.in_tags(tags)
    alts = []
    for i, rt in enumerate(node.poss):
        cs = [node.rt == i]
        for key, (p, cond, sub, ftype, fname) in node.variants[i].items():
            if hole is not None and hole.get("obj") is node and hole["variant"] == i and hole["key"] == key:
                cs.append(z3.Not(p))
                continue
            cs.append(p if cond is None else p == cond)
            if fname == "__typename":
                if hole is not None and hole.get("node") is sub:
                    cs.append(z3.Implies(p, hole["f"]))
                else:
                    cs.append(z3.Implies(p, sub.str_in([rt.name])))
            else:
                cs.append(z3.Implies(p, conf(ctx, sub, ftype, hole)))
        alts.append(z3.And(*cs))
    return z3.And(node.is_obj(), z3.Or(*alts))


# ------------------------------------------------------------------------------------------------------
# pydantic side
class Pyd:
    """Acceptance / faithfulness of payload `node` for annotation `ann` found in module `mod`.
    pol=+1 over-approximates unknown constructs (True), pol=-1 under-approximates (False)."""

    def __init__(self, ctx: Ctx, pol: int):
        self.ctx, self.pkg, self.pol = ctx, ctx.pkg, pol
        self.unknown_used: List[str] = []

    def unknown(self, what: str):
        if what not in self.unknown_used:
            self.unknown_used.append(what)
        return T(self.pol > 0)

    @staticmethod
    def norm(ann):
        if isinstance(ann, ast.Constant) and isinstance(ann.value, str):
            return ast.parse(ann.value, mode="eval").body
        return ann

    @staticmethod
    def elts(sl):
        return list(sl.elts) if isinstance(sl, ast.Tuple) else [sl]

    def acc(self, ann, node, mod: str, disc: Optional[str] = None):
        ctx = self.ctx
        ann = self.norm(ann)
        if isinstance(ann, ast.Subscript):
            head = ast.unparse(ann.value)
            if head == "Optional":
                return z3.Or(node.is_null(), self.acc(ann.slice, node, mod, disc))
            if head == "List":
                if node.elems is not None:
                    return z3.And(node.is_list(), *[z3.Implies(i < node.llen, self.acc(ann.slice, node.elems[i], mod)) for i in range(ctx.L)])
                return z3.And(node.is_list(), z3.Or(z3.Not(node.nonempty), self.acc(ann.slice, ConstNode(ctx), mod)))
            if head == "Annotated":
                inner, metas = self.elts(ann.slice)[0], self.elts(ann.slice)[1:]
                d = None
                for meta in metas:
                    msrc = ast.unparse(meta)
                    if isinstance(meta, ast.Call) and ast.unparse(meta.func) == "Field":
                        for kw in meta.keywords:
                            if kw.arg == "discriminator":
                                d = ast.literal_eval(kw.value)
                            else:
                                raise Unsupported(msrc)
                    elif isinstance(meta, ast.Call) and ast.unparse(meta.func) == "BeforeValidator":
                        # user function runs on the raw value (not for None under Optional[...]); result unknown
                        return self.unknown("BeforeValidator")
                    elif isinstance(meta, ast.Call) and ast.unparse(meta.func) == "PlainSerializer":
                        continue
                    else:
                        raise Unsupported(msrc)
                return self.acc(inner, node, mod, d or disc)
            if head == "Literal":
                vals = [ast.literal_eval(e) for e in self.elts(ann.slice)]
                if not all(isinstance(v, str) for v in vals):
                    raise Unsupported(ast.unparse(ann))
                return node.str_in(vals)
            if head == "Union":
                members = [self.norm(m) for m in self.elts(ann.slice)]
                if disc:
                    return self.acc_disc_union(members, node, mod, disc)
                # smart-mode union: accepted iff some member accepts
                return Or(self.acc(m, node, mod) for m in members)
            raise Unsupported(ast.unparse(ann))
        if isinstance(ann, ast.Constant) and ann.value is None:
            return node.is_null()  # NoneType: only None validates
        if isinstance(ann, ast.Name):
            name = ann.id
            if name == "Any":
                return T(True)
            if name in ("str", "int", "float", "bool"):
                tags = ctx.tags_where(lambda v: lax(name, v)[0])
                opaque_list = z3.And(node.is_list(), T(False))  # measured below once per run: lists/objects never coerce
                return z3.Or(node.in_tags(tags), opaque_list)
            ci = self.pkg.resolve(mod, name)
            if ci is not None and ci.is_enum:
                return node.str_in([v for v in ci.enum_values if isinstance(v, str)])
            if ci is not None:
                return self.acc_class(ci, node)
            return z3.And(z3.Not(node.is_null()), self.unknown("type:" + name))
        raise Unsupported(ast.unparse(ann))

    # an object node offers, per runtime type, the dict of keys
    def views(self, node):
        if node.variants is not None:
            return [(node.rt == i, {k: (v[0], v[2]) for k, v in var.items()}, i) for i, var in enumerate(node.variants)]
        return [(T(True), {"k": (node.nonempty, ConstNode(self.ctx))}, None)]

    def field_acc(self, f: FieldInfo, view, mod):
        ents = []
        if f.alias is not None and f.alias in view:
            ents.append(view[f.alias])
        if f.name in view and (f.alias is None or f.alias != f.name):
            ents.append(view[f.name])  # populate_by_name: looked up after the alias
        res = T(f.has_default)
        for p, sub in reversed(ents):
            res = z3.If(p, self.acc(f.ann, sub, mod, f.discriminator), res)
        return res

    def acc_fields(self, ci: ClassInfo, view):
        ub = self.pkg.unknown_bases(ci)
        extra = [self.unknown("base:" + b) for b in ub]
        return And([self.field_acc(f, view, f.module or ci.module) for f in self.pkg.all_fields(ci).values()] + extra)

    def acc_class(self, ci: ClassInfo, node):
        return z3.And(node.is_obj(), Or(z3.And(g, self.acc_fields(ci, view)) for g, view, _ in self.views(node)))

    def literal_of(self, ci: ClassInfo, fname: str):
        f = self.pkg.all_fields(ci).get(fname)
        if f is None:
            return None, None
        ann = self.norm(f.ann)
        if isinstance(ann, ast.Subscript) and ast.unparse(ann.value) == "Literal":
            return [ast.literal_eval(e) for e in self.elts(ann.slice)], f
        return None, f

    def union_members(self, members, mod, disc):
        out = []
        for m in members:
            if not isinstance(m, ast.Name):
                raise Unsupported("union member " + ast.unparse(m))
            ci = self.pkg.resolve(mod, m.id)
            if ci is None:
                raise Unsupported("union member class " + m.id)
            lits, f = self.literal_of(ci, disc)
            if lits is None:
                raise Unsupported(f"union member {m.id} has no Literal discriminator field {disc}")
            out.append((ci, lits, f))
        return out

    def acc_disc_union(self, members, node, mod, disc):
        alts = []
        for g, view, _ in self.views(node):
            for ci, lits, f in self.union_members(members, mod, disc):
                ent = view.get(f.key)
                if ent is None:
                    continue
                p, sub = ent
                alts.append(z3.And(g, p, sub.str_in(lits), self.acc_fields(ci, view)))
        return z3.And(node.is_obj(), Or(alts))

    # ---------------- which class does pydantic use for which object node (guarded)
    def pairs(self, ann, node, mod, disc=None, guard=None, out=None, depth=0):
        out = [] if out is None else out
        guard = T(True) if guard is None else guard
        if depth > 12:
            return out
        ann = self.norm(ann)
        if isinstance(ann, ast.Subscript):
            head = ast.unparse(ann.value)
            if head == "Optional":
                return self.pairs(ann.slice, node, mod, disc, guard, out, depth)
            if head == "List":
                if node.elems is not None:
                    for i, e in enumerate(node.elems):
                        self.pairs(ann.slice, e, mod, None, z3.And(guard, node.is_list(), i < node.llen), out, depth + 1)
                return out
            if head == "Annotated":
                inner, metas = self.elts(ann.slice)[0], self.elts(ann.slice)[1:]
                d = None
                for meta in metas:
                    if isinstance(meta, ast.Call) and ast.unparse(meta.func) == "Field":
                        for kw in meta.keywords:
                            if kw.arg == "discriminator":
                                d = ast.literal_eval(kw.value)
                return self.pairs(inner, node, mod, d or disc, guard, out, depth)
            if head == "Union" and disc and node.variants is not None:
                members = [self.norm(m) for m in self.elts(ann.slice)]
                for g, view, vi in self.views(node):
                    for ci, lits, f in self.union_members(members, mod, disc):
                        ent = view.get(f.key)
                        if ent is None:
                            continue
                        p, sub = ent
                        g2 = z3.And(guard, node.is_obj(), g, p, sub.str_in(lits))
                        out.append((g2, ci, node))
                        self._pairs_fields(ci, view, g2, out, depth)
                return out
            return out
        if isinstance(ann, ast.Name):
            ci = self.pkg.resolve(mod, ann.id)
            if ci is not None and not ci.is_enum and node.variants is not None:
                out.append((z3.And(guard, node.is_obj()), ci, node))
                for g, view, vi in self.views(node):
                    self._pairs_fields(ci, view, z3.And(guard, node.is_obj(), g), out, depth)
        return out

    def _pairs_fields(self, ci, view, guard, out, depth):
        for f in self.pkg.all_fields(ci).values():
            ent = view.get(f.key)
            if ent is None:
                continue
            p, sub = ent
            self.pairs(f.ann, sub, f.module or ci.module, f.discriminator, z3.And(guard, p), out, depth + 1)

    # ---------------- faithfulness (assumes Conf and Acc): exposure by python name, typename class, dump by alias
    def faith(self, ann, node, mod, disc=None):
        ctx = self.ctx
        ann = self.norm(ann)
        if isinstance(ann, ast.Subscript):
            head = ast.unparse(ann.value)
            if head == "Optional":
                return z3.Or(node.is_null(), self.faith(ann.slice, node, mod, disc))
            if head == "List":
                if node.elems is None:
                    return T(True)
                return And(z3.Implies(i < node.llen, self.faith(ann.slice, node.elems[i], mod)) for i in range(ctx.L))
            if head == "Annotated":
                inner, metas = self.elts(ann.slice)[0], self.elts(ann.slice)[1:]
                d = None
                for meta in metas:
                    if isinstance(meta, ast.Call) and ast.unparse(meta.func) == "Field":
                        for kw in meta.keywords:
                            if kw.arg == "discriminator":
                                d = ast.literal_eval(kw.value)
                    elif isinstance(meta, ast.Call) and ast.unparse(meta.func) == "BeforeValidator":
                        return T(True)  # parse(raw) is what user code must see (C07), not the raw value
                return self.faith(inner, node, mod, d or disc)
            if head == "Literal":
                return T(True)
            if head == "Union":
                members = [self.norm(m) for m in self.elts(ann.slice)]
                if not disc:
                    return T(True)
                alts = []
                for g, view, vi in self.views(node):
                    for ci, lits, f in self.union_members(members, mod, disc):
                        ent = view.get(f.key)
                        if ent is None:
                            continue
                        p, sub = ent
                        alts.append(z3.And(g, p, sub.str_in(lits), self.faith_fields(ci, node, view, vi)))
                return Or(alts)
            return T(True)
        if isinstance(ann, ast.Name):
            exp = get_named_type(node.expect) if getattr(node, "expect", None) is not None else None
            ci = self.pkg.resolve(mod, ann.id)
            if isinstance(exp, GraphQLEnumType):
                if ci is None or not ci.is_enum:
                    return node.is_null()  # a raw string, not the enum member
                return T(True)
            if ci is not None and not ci.is_enum:
                return Or(z3.And(g, self.faith_fields(ci, node, view, vi)) for g, view, vi in self.views(node))
            return T(True)
        return T(True)

    def faith_fields(self, ci: ClassInfo, node, view, vi):
        fields = self.pkg.all_fields(ci)
        cs = []
        by_key: Dict[str, FieldInfo] = {}
        for f in fields.values():
            by_key[f.key] = f
        for key, (p, sub) in view.items():
            f = by_key.get(key)
            if f is None:
                cs.append(z3.Not(p))  # a returned key that no field exposes
            else:
                cs.append(z3.Implies(p, self.faith(f.ann, sub, f.module or ci.module, f.discriminator)))
        for f in fields.values():
            ent = view.get(f.key)
            absent = T(True) if ent is None else z3.Not(ent[0])
            ok_default = f.has_default and f.default_src == "None"
            if not ok_default:
                cs.append(z3.Not(absent) if f.has_default else T(True))  # required+absent is not accepted anyway
        # at abstract positions the selected class must carry a __typename Literal that contains the runtime type
        # (the response key of the __typename selection may be an alias)
        if vi is not None and getattr(node, "expect", None) is not None and is_abstract_type(get_named_type(node.expect)) and node.variants is not None:
            tn_keys = [k for k, ent in node.variants[vi].items() if ent[4] == "__typename"]
            ok = False
            for k in tn_keys or ["__typename"]:
                f = by_key.get(k)
                if f is None:
                    continue
                a = self.norm(f.ann)
                if isinstance(a, ast.Subscript) and ast.unparse(a.value) == "Literal":
                    lits = [ast.literal_eval(e) for e in self.elts(a.slice)]
                    if node.poss[vi].name in lits:
                        ok = True
            cs.append(T(ok))
        return And(cs)


# ------------------------------------------------------------------------------------------------------
def concretize(ctx: Ctx, m, node):
    tag = m.eval(node.tag, model_completion=True).as_long()
    if tag < ctx.T_LIST:
        return ctx.atom_value(tag)
    ne = z3.is_true(m.eval(node.nonempty, model_completion=True))
    if tag == ctx.T_LIST:
        if node.elems is None:
            return [7] if ne else []
        n = m.eval(node.llen, model_completion=True).as_long()
        return [concretize(ctx, m, node.elems[i]) for i in range(n)]
    if node.variants is None:
        return {"k": 7} if ne else {}
    i = m.eval(node.rt, model_completion=True).as_long()
    return {key: concretize(ctx, m, sub) for key, (p, cond, sub, ft, fn) in node.variants[i].items() if z3.is_true(m.eval(p, model_completion=True))}


def concretize_rt(ctx: Ctx, m, node):
    """same tree but object nodes are {"__rt": runtime type name, "keys": {...}} (for the graphql-core oracle)"""
    tag = m.eval(node.tag, model_completion=True).as_long()
    if tag < ctx.T_LIST:
        return ctx.atom_value(tag)
    ne = z3.is_true(m.eval(node.nonempty, model_completion=True))
    if tag == ctx.T_LIST:
        if node.elems is None:
            return [7] if ne else []
        n = m.eval(node.llen, model_completion=True).as_long()
        return [concretize_rt(ctx, m, node.elems[i]) for i in range(n)]
    if node.variants is None:
        return {"__rt": None, "keys": {"k": 7} if ne else {}}
    i = m.eval(node.rt, model_completion=True).as_long()
    return {"__rt": node.poss[i].name, "keys": {key: concretize_rt(ctx, m, sub) for key, (p, cond, sub, ft, fn) in node.variants[i].items() if z3.is_true(m.eval(p, model_completion=True))}}


def dirvar_values(ctx: Ctx, m) -> Dict[str, bool]:
    return {k: z3.is_true(m.eval(v, model_completion=True)) for k, v in ctx.dirvars.items()}


# ------------------------------------------------------------------------------------------------------
# culprit localisation under a model (mirrors Pyd.acc; used only to classify / block counterexamples)
def _true(m, f):
    return z3.is_true(m.eval(f, model_completion=True))


def tag_kind(ctx: Ctx, tag: int) -> str:
    if tag == 0:
        return "null"
    if tag in (1, 2):
        return "bool"
    if tag in (3, 4, 5):
        return "int"
    if tag in (6, 7):
        return "float"
    if tag < ctx.T_LIST:
        return "str"
    return "list" if tag == ctx.T_LIST else "obj"


def kind_pred(node, kind: str):
    return {"null": node.is_null, "bool": node.is_bool, "int": node.is_int, "float": node.is_float, "str": node.is_str,
            "list": node.is_list, "obj": node.is_obj}[kind]()


def explain(pyd: Pyd, m, ann, node, mod, disc=None) -> List[dict]:
    """why does pydantic (as encoded) reject `node` for `ann` under model m?  -> list of culprit dicts"""
    ctx = pyd.ctx
    if _true(m, pyd.acc(ann, node, mod, disc)):
        return []
    ann = pyd.norm(ann)
    tag = m.eval(node.tag, model_completion=True).as_long()
    here = {"node": node, "reason": "value", "tag": tag, "kind": tag_kind(ctx, tag), "ann": ast.unparse(ann)}
    if isinstance(ann, ast.Subscript):
        head = ast.unparse(ann.value)
        if head == "Optional":
            return explain(pyd, m, ann.slice, node, mod, disc)
        if head == "List":
            if tag != ctx.T_LIST or node.elems is None:
                return [here]
            n = m.eval(node.llen, model_completion=True).as_long()
            out = []
            for i in range(n):
                out.extend(explain(pyd, m, ann.slice, node.elems[i], mod))
            return out or [here]
        if head == "Annotated":
            inner = pyd.elts(ann.slice)[0]
            d = None
            for meta in pyd.elts(ann.slice)[1:]:
                if isinstance(meta, ast.Call) and ast.unparse(meta.func) == "Field":
                    for kw in meta.keywords:
                        if kw.arg == "discriminator":
                            d = ast.literal_eval(kw.value)
            return explain(pyd, m, inner, node, mod, d or disc)
        if head == "Union" and disc and tag == ctx.T_OBJ and node.variants is not None:
            members = [pyd.norm(x) for x in pyd.elts(ann.slice)]
            i = m.eval(node.rt, model_completion=True).as_long()
            view = {k: (v[0], v[2]) for k, v in node.variants[i].items()}
            for ci, lits, f in pyd.union_members(members, mod, disc):
                ent = view.get(f.key)
                if ent is None or not _true(m, ent[0]):
                    return [{"node": node, "reason": "missing", "variant": i, "key": f.key, "cls": ci.name}]
                if _true(m, ent[1].str_in(lits)):
                    return explain_fields(pyd, m, ci, node, i, view)
            tn = view.get("__typename")
            return [{"node": tn[1] if tn else node, "reason": "tag", "variant": i, "tag": m.eval(tn[1].tag, model_completion=True).as_long() if tn else None,
                     "kind": "str", "ann": ast.unparse(ann)}]
        return [here]
    if isinstance(ann, ast.Name):
        ci = pyd.pkg.resolve(mod, ann.id)
        if ci is not None and not ci.is_enum and tag == ctx.T_OBJ and node.variants is not None:
            i = m.eval(node.rt, model_completion=True).as_long()
            view = {k: (v[0], v[2]) for k, v in node.variants[i].items()}
            return explain_fields(pyd, m, ci, node, i, view) or [here]
    return [here]


def explain_fields(pyd: Pyd, m, ci: ClassInfo, node, i, view) -> List[dict]:
    out = []
    for f in pyd.pkg.all_fields(ci).values():
        if _true(m, pyd.field_acc(f, view, f.module or ci.module)):
            continue
        ent = None
        if f.alias is not None and f.alias in view and _true(m, view[f.alias][0]):
            ent = view[f.alias]
        elif f.name in view and _true(m, view[f.name][0]):
            ent = view[f.name]
        if ent is None:
            out.append({"node": node, "reason": "missing", "variant": i, "key": f.key, "cls": ci.name, "field": f.name})
        else:
            out.extend(explain(pyd, m, f.ann, ent[1], f.module or ci.module, f.discriminator))
    return out


def node_at(ctx: Ctx, m, rootnode: Node, path: List) -> Tuple[Optional[Node], Optional[Node], Optional[int]]:
    """follow a payload path (response keys / list indexes) under model m -> (node, parent object node, variant index)"""
    cur, parent, vi = rootnode, None, None
    for el in path:
        if cur is None:
            return None, None, None
        if isinstance(el, int):
            if cur.elems is None or el >= len(cur.elems):
                return None, None, None
            cur = cur.elems[el]
        else:
            if cur.variants is None:
                return None, cur, None
            i = m.eval(cur.rt, model_completion=True).as_long()
            ent = cur.variants[i].get(el)
            parent, vi = cur, i
            cur = ent[2] if ent is not None else None
    return cur, parent, vi


def via_class(ctx: Ctx, node: Node) -> str:
    """how did this response key get selected, relative to the declared type of the enclosing position?"""
    if node.parent is None or node.parent.expect is None:
        return "direct"
    ptype = get_named_type(node.parent.expect)
    classes = set()
    for via in node.via or [()]:
        if not via:
            classes.add("direct")
            continue
        for kind, _name, tc in via:
            if tc is None or tc == ptype.name:
                classes.add("same_type")
            elif is_abstract_type(ctx.schema.type_map[tc]):
                # a condition on a *wider* abstract type (the position's type implements it) applies to every runtime type;
                # a narrower / overlapping one only to some; inline fragments and named spreads take different code paths
                wider = ctx.schema.is_sub_type(ctx.schema.type_map[tc], ptype)
                classes.add(("wider" if wider else "other") + "_abstract_" + ("inline" if kind == "inline" else "spread"))
            else:
                classes.add("object_type")
    for c in ("other_abstract_inline", "other_abstract_spread", "wider_abstract_inline", "wider_abstract_spread", "object_type", "same_type", "direct"):
        if c in classes:
            return c
    return "direct"
