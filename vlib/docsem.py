"""Reference for C02: what document must be sent for an authored operation (independent of the generator)."""
from __future__ import annotations

from copy import deepcopy
from typing import Dict, List, Optional, Set, Tuple

from graphql import (
    FieldNode,
    FragmentDefinitionNode,
    FragmentSpreadNode,
    InlineFragmentNode,
    OperationDefinitionNode,
    TypeInfo,
    TypeInfoVisitor,
    Visitor,
    build_schema,
    get_named_type,
    is_abstract_type,
    parse,
    print_ast,
    specified_rules,
    validate,
    visit,
)


def reachable_fragments(op, frags: Dict[str, FragmentDefinitionNode]) -> Set[str]:
    seen: Set[str] = set()

    def walk(ss):
        for sel in ss.selections:
            if isinstance(sel, FragmentSpreadNode):
                n = sel.name.value
                if n not in seen:
                    seen.add(n)
                    walk(frags[n].selection_set)
            elif getattr(sel, "selection_set", None):
                walk(sel.selection_set)

    walk(op.selection_set)
    return seen


class _StripMixin(Visitor):
    def enter(self, node, *_):
        if hasattr(node, "directives") and node.directives:
            node.directives = tuple(d for d in node.directives if d.name.value != "mixin")
        return None


def without_mixin(node):
    n = deepcopy(node)
    visit(n, _StripMixin())
    return n


def strip_auto_typename(sent_node, authored_node, schema):
    """remove from `sent_node` the bare __typename fields that the authored selection set does not have, but only in
    selection sets whose type is abstract (the documented automatic rewrite); returns (node, illegal additions)"""
    illegal: List[str] = []
    sent = deepcopy(sent_node)
    ti = TypeInfo(schema)

    def rec(s_ss, a_ss, parent_type, path):
        if s_ss is None or a_ss is None:
            return
        a_has = any(isinstance(x, FieldNode) and x.name.value == "__typename" and x.alias is None for x in a_ss.selections)
        s_sel = list(s_ss.selections)
        if not a_has:
            extra = [x for x in s_sel if isinstance(x, FieldNode) and x.name.value == "__typename" and x.alias is None and not x.directives]
            if extra:
                if parent_type is not None and is_abstract_type(parent_type) and len(extra) == 1:
                    s_sel = [x for x in s_sel if x is not extra[0]]
                else:
                    illegal.append("/".join(path))
        s_ss.selections = tuple(s_sel)
        if len(s_sel) != len(a_ss.selections):
            return
        for sx, ax in zip(s_sel, a_ss.selections):
            if type(sx) is not type(ax):
                return
            if isinstance(sx, FieldNode):
                ft = None
                if parent_type is not None and hasattr(parent_type, "fields") and sx.name.value in parent_type.fields:
                    ft = get_named_type(parent_type.fields[sx.name.value].type)
                rec(sx.selection_set, ax.selection_set, ft, path + [sx.name.value])
            elif isinstance(sx, InlineFragmentNode):
                t = schema.type_map.get(sx.type_condition.name.value) if sx.type_condition else parent_type
                rec(sx.selection_set, ax.selection_set, t, path + ["..."])

    if isinstance(sent, OperationDefinitionNode):
        root = {"query": schema.query_type, "mutation": schema.mutation_type, "subscription": schema.subscription_type}[sent.operation.value]
    else:
        root = schema.type_map.get(sent.type_condition.name.value)
    rec(sent.selection_set, authored_node.selection_set, root, [])
    return sent, illegal


def check_sent_document(sdl: str, authored_queries: str, opname: str, sent_text: str, sent_opname: Optional[str]) -> List[str]:
    """-> list of problems (empty = the document sent is the document written)"""
    problems: List[str] = []
    schema = build_schema(sdl)
    adoc = parse(authored_queries)
    afr = {d.name.value: d for d in adoc.definitions if isinstance(d, FragmentDefinitionNode)}
    aop = next(d for d in adoc.definitions if isinstance(d, OperationDefinitionNode) and d.name and d.name.value == opname)
    try:
        sdoc = parse(sent_text)
    except Exception as e:  # noqa: BLE001
        return [f"sent text does not parse: {str(e)[:120]}"]
    errs = validate(schema, sdoc, specified_rules)
    if errs:
        problems.append("sent document invalid against the user's schema: " + "; ".join(e.message for e in errs)[:200])
    sops = [d for d in sdoc.definitions if isinstance(d, OperationDefinitionNode)]
    if len(sops) != 1:
        problems.append(f"{len(sops)} operations in the sent document")
        return problems
    if not sops[0].name or sops[0].name.value != sent_opname:
        problems.append(f"operationName {sent_opname!r} does not name the operation {sops[0].name.value if sops[0].name else None!r}")
    if sent_opname != opname:
        problems.append(f"operationName {sent_opname!r} != authored {opname!r}")
    sfr = {d.name.value: d for d in sdoc.definitions if isinstance(d, FragmentDefinitionNode)}
    if len(sfr) != len([d for d in sdoc.definitions if isinstance(d, FragmentDefinitionNode)]):
        problems.append("duplicate fragment definitions sent")
    want = reachable_fragments(aop, afr)
    if set(sfr) != want:
        problems.append(f"fragments sent {sorted(sfr)} != fragments reachable {sorted(want)}")
    pairs = [(sops[0], aop)] + [(sfr[n], afr[n]) for n in sorted(want & set(sfr))]
    for snode, anode in pairs:
        a_norm = without_mixin(anode)
        s_norm, illegal = strip_auto_typename(snode, a_norm, schema)
        if illegal:
            problems.append(f"__typename added outside an abstract selection at {illegal}")
        if print_ast(s_norm) != print_ast(a_norm):
            problems.append(f"definition {getattr(anode.name, 'value', '?')} altered: sent {print_ast(s_norm)!r} authored {print_ast(a_norm)!r}"[:400])
    return problems
