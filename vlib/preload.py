"""Imported once by the fork server so that each forked child starts with the heavy modules loaded
(but with pristine generator state: the fork server itself never runs a generation)."""
import warnings

warnings.simplefilter("ignore")
import ariadne_codegen.main  # noqa: E402,F401
import ariadne_codegen.contrib.client_forward_refs  # noqa: E402,F401
import ariadne_codegen.contrib.extract_operations  # noqa: E402,F401
import ariadne_codegen.contrib.no_reimports  # noqa: E402,F401
import ariadne_codegen.contrib.shorter_results  # noqa: E402,F401
import black  # noqa: E402,F401
import httpx  # noqa: E402,F401
import isort  # noqa: E402,F401
import pydantic  # noqa: E402,F401
