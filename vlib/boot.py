"""Common plumbing: exit codes, evidence writer, known-findings matching, violation reporting."""
from __future__ import annotations

import hashlib
import inspect
import json
import os
import sys
import time
from pathlib import Path
from typing import Any, Dict, List, Optional

ROOT = Path("/verif")
REPO = Path("/repo")
EXIT_OK, EXIT_VIOLATION, EXIT_HARNESS = 0, 1, 3


class HarnessError(Exception):
    """The machinery itself is wrong (encoding disagrees with the real code, counterexample
    does not replay, solver error).  Never a property verdict."""


def seed() -> int:
    try:
        return int(os.environ.get("VERIF_SEED", "0"))
    except ValueError:
        return 0


def src_sha(obj) -> Dict[str, str]:
    """file + sha1 of the source text of a real repo function that was encoded / driven."""
    try:
        src = inspect.getsource(obj)
        f = inspect.getsourcefile(obj) or "?"
    except (OSError, TypeError):
        return {"function": getattr(obj, "__qualname__", str(obj)), "file": "?", "sha1": "?"}
    return {
        "function": getattr(obj, "__qualname__", str(obj)),
        "file": os.path.relpath(f, REPO) if f.startswith(str(REPO)) else f,
        "sha1": hashlib.sha1(src.encode()).hexdigest()[:12],
    }


def file_sha(rel: str) -> Dict[str, str]:
    p = REPO / rel
    return {"file": rel, "sha1": hashlib.sha1(p.read_bytes()).hexdigest()[:12]}


class Report:
    """Collects verdicts for one property run, decides exit code, writes evidence."""

    def __init__(self, pid: str, tier: str, level: str):
        self.pid, self.tier, self.level = pid, tier, level
        self.t0 = time.time()
        self.coverage: Dict[str, Any] = {"samples": []}
        self.assumptions: List[str] = []
        self.violations: List[dict] = []
        self.known_hits: Dict[str, int] = {}
        self.inconclusive: List[str] = []
        self.harness_errors: List[str] = []
        self.functions: List[dict] = []
        self.solver_s = 0.0
        self.queries = {"sat": 0, "unsat": 0, "unknown": 0}
        self._known = [
            e for e in json.loads((ROOT / "known_findings.json").read_text())["findings"] if e["property"] == pid
        ]
        self._printed = set()
        self._nreplay = 0

    # -- bookkeeping -------------------------------------------------------------------
    def encoded(self, *objs):
        for o in objs:
            self.functions.append(src_sha(o) if not isinstance(o, str) else file_sha(o))

    def q(self, result: str, dt: float = 0.0):
        self.queries[result if result in self.queries else "unknown"] += 1
        self.solver_s += dt

    def sample(self, s, cap=12):
        if len(self.coverage["samples"]) < cap:
            self.coverage["samples"].append(s)

    def assume(self, *a):
        for x in a:
            if x not in self.assumptions:
                self.assumptions.append(x)

    def note_inconclusive(self, what: str):
        print(f"INCONCLUSIVE {what}", flush=True)
        self.inconclusive.append(what)

    def harness_error(self, what: str):
        print(f"HARNESS-ERROR {what}", flush=True)
        self.harness_errors.append(what)

    # -- findings ----------------------------------------------------------------------
    def match_known(self, sig: dict) -> Optional[dict]:
        for e in self._known:
            if e.get("status") != "open":
                continue
            m = e.get("match", {})
            if m and all(_match_val(sig.get(k), v) for k, v in m.items()):
                return e
        return None

    def violation(self, sig: dict, replay: dict, what: str) -> bool:
        """Report a *replayed and confirmed* violation.  Returns True when it was a listed known finding."""
        e = self.match_known(sig)
        if e is not None:
            self.known_hits[e["id"]] = self.known_hits.get(e["id"], 0) + 1
            if e["id"] not in self._printed:
                self._printed.add(e["id"])
                print(f"KNOWN-FINDING: property={self.pid} {e['id']}: {e['what']}", flush=True)
            return True
        self._nreplay += 1
        rp = ROOT / "replay" / f"{self.pid}-{self._nreplay}.json"
        rp.parent.mkdir(exist_ok=True)
        rp.write_text(json.dumps({"property": self.pid, "sig": sig, "what": what, "replay": replay}, indent=1, default=str))
        if len(self.violations) < 25:
            print(f"VIOLATION property={self.pid} replay={rp}", flush=True)
            print(f"  what: {what}\n  sig: {json.dumps(sig, default=str)}", flush=True)
        self.violations.append({"sig": sig, "what": what, "replay": str(rp)})
        return False

    # -- end ---------------------------------------------------------------------------
    def finish(self) -> int:
        cov = self.coverage
        cov.setdefault("functions_encoded", self.functions)
        cov["queries"] = dict(self.queries)
        cov["solver_s"] = round(self.solver_s, 3)
        cov["known_findings_hit"] = self.known_hits
        cov["inconclusive"] = self.inconclusive
        cov["harness_errors"] = self.harness_errors
        xp = cov.get("crosshair_paths")
        if xp and xp["explored"] and self.pid in XH_PRIMARY:
            # E-X checks: a case is one execution path explored by CrossHair (measured by the hook in harness/_h.py); non-trivial =
            # the path ran to the postcondition and was confirmed there (aborted / ignored / twin paths are not counted)
            cov["evaluations"] = xp["explored"]
            cov["distinct_nontrivial"] = xp["confirmed"]
            cov["rule"] = (cov.get("rule") or "") + " || counts: evaluations = execution paths explored by CrossHair over all conditions (each path is a distinct decision sequence of the symbolic parameters); distinct_nontrivial = paths of non-twin conditions that reached the postcondition and were confirmed"
        if self.inconclusive:
            cov["exhaustive"] = False
        if not cov["samples"]:
            cov["samples"] = ["(none recorded)"]
        ev = {
            "property_id": self.pid,
            "tier": self.tier,
            "seed": seed(),
            "level": self.level,
            "coverage": cov,
            "assumptions": self.assumptions,
            "wall_s": round(time.time() - self.t0, 2),
            "violations": len(self.violations),
        }
        out = ROOT / "evidence" / f"{self.pid}.json"
        out.parent.mkdir(exist_ok=True)
        out.write_text(json.dumps(ev, indent=1, default=str) + "\n")
        if self.violations and os.environ.get("VERIF_DEBUG"):
            hist: Dict[str, int] = {}
            for v in self.violations:
                k = json.dumps(v["sig"], sort_keys=True, default=str)
                hist[k] = hist.get(k, 0) + 1
            for k, n in sorted(hist.items(), key=lambda kv: -kv[1])[:60]:
                print(f"  SIG x{n}: {k}", flush=True)
        if self.violations:
            code = EXIT_VIOLATION  # replayed and confirmed on the real code: reported even if another obligation had a harness error
        elif self.harness_errors:
            code = EXIT_HARNESS
        else:
            code = EXIT_OK
        print(
            f"[{self.pid}] tier={self.tier} wall={ev['wall_s']}s queries={self.queries} solver_s={cov['solver_s']} "
            f"violations={len(self.violations)} known={sum(self.known_hits.values())} inconclusive={len(self.inconclusive)} exit={code}",
            flush=True,
        )
        return code


XH_PRIMARY = {"C02", "C03", "C04", "C07", "C09", "C10", "C11", "C12", "C13", "C14", "C15", "C16", "C19"}


def _match_val(actual, expected) -> bool:
    if isinstance(expected, dict) and "any_of" in expected:
        return actual in expected["any_of"]
    if isinstance(expected, dict) and "prefix" in expected:
        return isinstance(actual, str) and actual.startswith(expected["prefix"])
    if isinstance(expected, dict) and "contains" in expected:
        return isinstance(actual, str) and expected["contains"] in actual
    return actual == expected


class MiniReport:
    """stand-in for Report inside worker processes: same calls, results shipped back and folded by fold_mini()"""

    def __init__(self, pid: str, known: List[dict]):
        self.pid = pid
        self._known = known
        self.items: List[dict] = []
        self.queries = {"sat": 0, "unsat": 0, "unknown": 0}
        self.solver_s = 0.0
        self.inconclusive: List[str] = []
        self.harness_errors: List[str] = []
        self.functions: List[dict] = []
        self.samples: List[Any] = []
        self.extra: Dict[str, Any] = {}

    def encoded(self, *objs):
        for o in objs:
            self.functions.append(src_sha(o) if not isinstance(o, str) else file_sha(o))

    def q(self, result: str, dt: float = 0.0):
        self.queries[result if result in self.queries else "unknown"] += 1
        self.solver_s += dt

    def sample(self, s, cap=12):
        if len(self.samples) < cap:
            self.samples.append(s)

    def note_inconclusive(self, what: str):
        self.inconclusive.append(what)

    def harness_error(self, what: str):
        self.harness_errors.append(what)

    def match_known(self, sig: dict):
        for e in self._known:
            if e.get("status") != "open":
                continue
            m = e.get("match", {})
            if m and all(_match_val(sig.get(k), v) for k, v in m.items()):
                return e
        return None

    def violation(self, sig: dict, replay: dict, what: str) -> bool:
        self.items.append({"sig": sig, "replay": replay, "what": what})
        return self.match_known(sig) is not None

    def dump(self) -> dict:
        return {k: getattr(self, k) for k in ("items", "queries", "solver_s", "inconclusive", "harness_errors", "functions", "samples", "extra")}


def fold_mini(rep: "Report", d: dict):
    for k in ("sat", "unsat", "unknown"):
        rep.queries[k] += d["queries"][k]
    rep.solver_s += d["solver_s"]
    for x in d["inconclusive"]:
        rep.note_inconclusive(x)
    for x in d["harness_errors"]:
        rep.harness_error(x)
    for f in d["functions"]:
        if f not in rep.functions:
            rep.functions.append(f)
    for s in d["samples"]:
        rep.sample(s)
    for it in d["items"]:
        rep.violation(it["sig"], it["replay"], it["what"])
