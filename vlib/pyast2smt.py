"""E-S: a small symbolic evaluator that walks the AST of a *real* repo function (inspect.getsource at run time)
and produces bounded-string z3 terms.  Anything outside the translated subset raises UnsupportedConstruct,
which the checks turn into a harness error (exit 3) - never into a pass.
"""
from __future__ import annotations

import ast
import inspect
import textwrap
from typing import Any, Callable, Dict, List, Optional, Tuple

import z3

from . import bstr
from .bstr import BStr, Tokens


class UnsupportedConstruct(Exception):
    pass


class Raise:
    def __init__(self, exc: str):
        self.exc = exc

    def __repr__(self):
        return f"Raise({self.exc})"


def is_sym(v) -> bool:
    return isinstance(v, (BStr, Tokens, z3.ExprRef))


def to_bool(v):
    """python truthiness of a value, possibly symbolic"""
    if isinstance(v, z3.BoolRef):
        return v
    if isinstance(v, BStr):
        return v.n > 0
    if isinstance(v, z3.ExprRef):
        raise UnsupportedConstruct("truthiness of non-bool term")
    return bool(v)


def b_not(v):
    v = to_bool(v)
    return z3.Not(v) if isinstance(v, z3.BoolRef) else (not v)


def b_and(a, b):
    a, b = to_bool(a), to_bool(b)
    if isinstance(a, bool):
        return b if a else False
    if isinstance(b, bool):
        return a if b else False
    return z3.And(a, b)


def b_or(a, b):
    a, b = to_bool(a), to_bool(b)
    if isinstance(a, bool):
        return True if a else b
    if isinstance(b, bool):
        return True if b else a
    return z3.Or(a, b)


def as_bstr(v) -> BStr:
    if isinstance(v, BStr):
        return v
    if isinstance(v, str):
        return bstr.const(v)
    raise UnsupportedConstruct(f"expected string, got {type(v).__name__}")


def merge(c, a, b):
    """value of `a if c else b` for symbolic c"""
    if a is b:
        return a
    if isinstance(a, (BStr, str)) and isinstance(b, (BStr, str)):
        return bstr.ite(c, as_bstr(a), as_bstr(b))
    if isinstance(a, (bool, z3.BoolRef)) and isinstance(b, (bool, z3.BoolRef)):
        return z3.If(c, a if isinstance(a, z3.BoolRef) else z3.BoolVal(a), b if isinstance(b, z3.BoolRef) else z3.BoolVal(b))
    if not is_sym(a) and not is_sym(b) and a == b:
        return a
    raise UnsupportedConstruct(f"cannot merge {type(a).__name__} / {type(b).__name__}")


class Evaluator:
    """evaluates one function body; `globals_` are the function's real module globals (for constants such as
    PYDANTIC_RESERVED_FIELD_NAMES and for nested repo functions, which are translated recursively)."""

    def __init__(self, fn: Callable, trace_var: Optional[str] = None):
        self.fn = fn
        self.src = textwrap.dedent(inspect.getsource(fn))
        self.tree = ast.parse(self.src).body[0]
        self.globals = fn.__globals__
        self.trace_var = trace_var
        self.trace: List[Tuple[int, Any]] = []  # (lineno, value) after each assignment to trace_var

    def call(self, *args, **kwargs):
        """-> list of (path condition, returned value | Raise)"""
        sig = inspect.signature(self.fn)
        bound = sig.bind(*args, **kwargs)
        bound.apply_defaults()
        env = dict(bound.arguments)
        rets: List[Tuple[Any, Any]] = []
        env2 = self.block(self.tree.body, env, True, rets)
        if env2 is not None:
            rets.append((env2["__pc__"] if "__pc__" in env2 else True, None))
        return rets

    # statements ----------------------------------------------------------------------------------
    def block(self, stmts, env, pc, rets):
        env = dict(env)
        env["__pc__"] = pc
        for st in stmts:
            if isinstance(st, ast.Expr) and isinstance(st.value, ast.Constant):
                continue  # docstring
            if isinstance(st, ast.Assign):
                if len(st.targets) != 1 or not isinstance(st.targets[0], ast.Name):
                    raise UnsupportedConstruct(ast.unparse(st))
                v = self.expr(st.value, env)
                env[st.targets[0].id] = v
                if st.targets[0].id == self.trace_var:
                    self.trace.append((st.lineno, v, pc))
            elif isinstance(st, ast.AugAssign):
                if not (isinstance(st.target, ast.Name) and isinstance(st.op, ast.Add)):
                    raise UnsupportedConstruct(ast.unparse(st))
                v = self.add(env[st.target.id], self.expr(st.value, env))
                env[st.target.id] = v
                if st.target.id == self.trace_var:
                    self.trace.append((st.lineno, v, pc))
            elif isinstance(st, ast.Return):
                rets.append((pc, self.expr(st.value, env) if st.value is not None else None))
                return None
            elif isinstance(st, ast.Raise):
                name = "Exception"
                if isinstance(st.exc, ast.Call):
                    name = ast.unparse(st.exc.func)
                elif st.exc is not None:
                    name = ast.unparse(st.exc)
                rets.append((pc, Raise(name)))
                return None
            elif isinstance(st, ast.If):
                c = to_bool(self.expr(st.test, env))
                if isinstance(c, bool):
                    env2 = self.block(st.body if c else st.orelse, env, pc, rets)
                    if env2 is None:
                        return None
                    env = env2
                else:
                    ea = self.block(st.body, env, b_and(pc, c), rets)
                    eb = self.block(st.orelse, env, b_and(pc, z3.Not(c)), rets)
                    if ea is None and eb is None:
                        return None
                    if ea is None:
                        env, pc = eb, eb["__pc__"]
                    elif eb is None:
                        env, pc = ea, ea["__pc__"]
                    else:
                        merged = {}
                        for k in set(ea) | set(eb):
                            if k == "__pc__":
                                continue
                            if k in ea and k in eb:
                                merged[k] = merge(c, ea[k], eb[k])
                                if k == self.trace_var and ea[k] is not eb[k]:
                                    self.trace.append((st.end_lineno, merged[k], pc))
                        merged["__pc__"] = pc
                        env = merged
            elif isinstance(st, ast.Pass):
                continue
            else:
                raise UnsupportedConstruct(f"statement {type(st).__name__}: {ast.unparse(st)[:80]}")
        return env

    # expressions ---------------------------------------------------------------------------------
    def add(self, a, b):
        if isinstance(a, str) and isinstance(b, str):
            return a + b
        return bstr.concat(as_bstr(a), as_bstr(b))

    def expr(self, e, env):
        if isinstance(e, ast.Constant):
            return e.value
        if isinstance(e, ast.Name):
            if e.id in env:
                return env[e.id]
            if e.id in self.globals:
                return self.globals[e.id]
            import builtins

            if hasattr(builtins, e.id):
                return getattr(builtins, e.id)
            raise UnsupportedConstruct("name " + e.id)
        if isinstance(e, ast.JoinedStr):
            parts = []
            for v in e.values:
                if isinstance(v, ast.Constant):
                    parts.append(v.value)
                elif isinstance(v, ast.FormattedValue) and v.conversion == -1 and v.format_spec is None:
                    parts.append(self.expr(v.value, env))
                else:
                    raise UnsupportedConstruct(ast.unparse(e))
            out: Any = ""
            for p in parts:
                out = self.add(out, p)
            return out
        if isinstance(e, ast.BinOp) and isinstance(e.op, ast.Add):
            return self.add(self.expr(e.left, env), self.expr(e.right, env))
        if isinstance(e, ast.UnaryOp) and isinstance(e.op, ast.Not):
            return b_not(self.expr(e.operand, env))
        if isinstance(e, ast.BoolOp):
            vals = [self.expr(v, env) for v in e.values]
            out = vals[0]
            for v in vals[1:]:
                out = b_and(out, v) if isinstance(e.op, ast.And) else b_or(out, v)
            return out
        if isinstance(e, ast.IfExp):
            c = to_bool(self.expr(e.test, env))
            if isinstance(c, bool):
                return self.expr(e.body if c else e.orelse, env)
            return merge(c, self.expr(e.body, env), self.expr(e.orelse, env))
        if isinstance(e, ast.Compare) and len(e.ops) == 1:
            return self.compare(e.ops[0], self.expr(e.left, env), e.comparators[0], env)
        if isinstance(e, ast.Attribute):
            base = self.expr(e.value, env)
            if not is_sym(base):
                return getattr(base, e.attr)
            raise UnsupportedConstruct("attribute on symbolic value: " + ast.unparse(e))
        if isinstance(e, ast.Call):
            return self.callexpr(e, env)
        if isinstance(e, (ast.Tuple, ast.List)):
            return [self.expr(x, env) for x in e.elts]
        if isinstance(e, ast.Set):
            return {self.expr(x, env) for x in e.elts}
        raise UnsupportedConstruct(f"expression {type(e).__name__}: {ast.unparse(e)[:80]}")

    def compare(self, op, left, right_node, env):
        # set(name) == {"_"}
        if isinstance(op, (ast.Eq, ast.NotEq)) and isinstance(left, tuple) and left and left[0] == "charset":
            right = self.expr(right_node, env)
            if isinstance(right, set) and len(right) == 1 and all(isinstance(x, str) and len(x) == 1 for x in right):
                r = bstr.charset_is(left[1], ord(next(iter(right))))
                return r if isinstance(op, ast.Eq) else z3.Not(r)
            raise UnsupportedConstruct("charset comparison")
        right = self.expr(right_node, env)
        if isinstance(op, (ast.Eq, ast.NotEq)):
            if not is_sym(left) and not is_sym(right):
                r = left == right
                return r if isinstance(op, ast.Eq) else not r
            if isinstance(left, (BStr, str)) and isinstance(right, (BStr, str)):
                r = bstr.eq_const(left, right) if isinstance(right, str) else bstr.eq(as_bstr(left), right)
                return r if isinstance(op, ast.Eq) else z3.Not(r)
            raise UnsupportedConstruct("== on " + type(left).__name__)
        if isinstance(op, (ast.In, ast.NotIn)):
            if not is_sym(left) and not is_sym(right):
                r = left in right
                return r if isinstance(op, ast.In) else not r
            if isinstance(left, BStr) and isinstance(right, (list, tuple, set, frozenset)) and all(isinstance(x, str) for x in right):
                r = bstr.in_list(left, sorted(right))
                return r if isinstance(op, ast.In) else z3.Not(r)
            raise UnsupportedConstruct("in on " + type(right).__name__)
        if isinstance(op, (ast.Is, ast.IsNot)) and not is_sym(left) and not is_sym(right):
            r = left is right
            return r if isinstance(op, ast.Is) else not r
        raise UnsupportedConstruct("comparison " + type(op).__name__)

    def callexpr(self, e: ast.Call, env):
        f = e.func
        args = [self.expr(a, env) for a in e.args]
        kwargs = {k.arg: self.expr(k.value, env) for k in e.keywords}
        # method calls on strings
        if isinstance(f, ast.Attribute):
            recv_node = f.value
            # re.findall(pattern, s)
            if isinstance(recv_node, ast.Name) and recv_node.id == "re" and f.attr == "findall":
                pat, s = args
                if not isinstance(pat, str):
                    raise UnsupportedConstruct("symbolic regex pattern")
                if isinstance(s, str):
                    import re

                    return re.findall(pat, s)
                return bstr.findall(pat, s)
            recv = self.expr(recv_node, env)
            if isinstance(recv, str) and f.attr == "join" and len(args) == 1:
                a = args[0]
                if isinstance(a, tuple) and a and a[0] == "map_lower":
                    if len(recv) != 1:
                        raise UnsupportedConstruct("join separator")
                    return bstr.join_tokens(a[1], ord(recv), bstr.lower_c)
                if isinstance(a, tuple) and a and a[0] == "pascal_gen":
                    if recv != "":
                        raise UnsupportedConstruct("join separator for pascal idiom")
                    return bstr.pascal(a[1], a[2])
                if isinstance(a, list) and all(isinstance(x, str) for x in a):
                    return recv.join(a)
                raise UnsupportedConstruct("join of " + str(type(a)))
            if isinstance(recv, BStr):
                if f.attr == "lstrip" and len(args) == 1 and isinstance(args[0], str) and len(args[0]) == 1:
                    return bstr.lstrip_char(recv, ord(args[0]))
                if f.attr == "startswith" and len(args) == 1 and isinstance(args[0], str):
                    return bstr.startswith_const(recv, args[0])
                if f.attr == "isidentifier" and not args:
                    return bstr.is_ascii_identifier(recv)
                if f.attr == "lower" and not args:
                    return bstr.lower(recv)
                raise UnsupportedConstruct("str method " + f.attr)
            if not is_sym(recv) and not any(is_sym(a) for a in args):
                return getattr(recv, f.attr)(*args, **kwargs)
            raise UnsupportedConstruct("call " + ast.unparse(f))
        if isinstance(f, ast.Name):
            name = f.id
            if name == "iskeyword" and len(args) == 1:
                import keyword

                a = args[0]
                return keyword.iskeyword(a) if isinstance(a, str) else bstr.in_list(a, keyword.kwlist)
            if name == "set" and len(args) == 1 and isinstance(args[0], BStr):
                return ("charset", args[0])
            if name == "map" and len(args) == 2 and isinstance(args[1], Tokens) and args[0] is str.lower:
                return ("map_lower", args[1])
            if name == "len" and len(args) == 1 and isinstance(args[0], BStr):
                return args[0].n
            target = env.get(name, self.globals.get(name))
            if target is not None and inspect.isfunction(target) and (target.__module__ or "").startswith("ariadne_codegen"):
                if not any(is_sym(a) for a in args) and not any(is_sym(v) for v in kwargs.values()):
                    return target(*args, **kwargs)
                sub = Evaluator(target)
                rets = sub.call(*args, **kwargs)
                return fold_returns(rets)
            if target is not None and callable(target) and not any(is_sym(a) for a in args) and not any(is_sym(v) for v in kwargs.values()):
                return target(*args, **kwargs)
            raise UnsupportedConstruct("call of " + name)
        # generator idiom: "".join(n[:1].upper() + n[1:] for n in name.split("_")) handled through GeneratorExp below
        raise UnsupportedConstruct("call " + ast.unparse(e)[:80])


def fold_returns(rets):
    """list of (pc, value) -> single value (ite chain); Raise values are not allowed here"""
    if not rets:
        raise UnsupportedConstruct("no return")
    vals = [v for _, v in rets]
    if any(isinstance(v, Raise) for v in vals):
        raise UnsupportedConstruct("nested raise")
    out = vals[-1]
    for pc, v in reversed(rets[:-1]):
        out = v if pc is True else merge(pc, v, out)
    return out


def raises_cond(rets):
    """-> z3 Bool / bool: the call raises"""
    out: Any = False
    for pc, v in rets:
        if isinstance(v, Raise):
            out = b_or(out, pc)
    return out


# the pascal-case idiom is a generator expression; recognise it structurally and route it to bstr.pascal
_orig_expr = Evaluator.expr


def _expr_with_genexp(self, e, env):
    if isinstance(e, ast.GeneratorExp) and len(e.generators) == 1 and not e.generators[0].ifs:
        g = e.generators[0]
        it = g.iter
        if (isinstance(g.target, ast.Name) and isinstance(it, ast.Call) and isinstance(it.func, ast.Attribute) and it.func.attr == "split"
                and len(it.args) == 1 and isinstance(it.args[0], ast.Constant) and isinstance(it.args[0].value, str) and len(it.args[0].value) == 1):
            n = g.target.id
            want = ast.dump(ast.parse(f"{n}[:1].upper() + {n}[1:]", mode="eval").body)
            if ast.dump(e.elt) == want:
                recv = self.expr(it.func.value, env)
                if isinstance(recv, str):
                    return [x[:1].upper() + x[1:] for x in recv.split(it.args[0].value)]
                return ("pascal_gen", as_bstr(recv), ord(it.args[0].value))
        raise UnsupportedConstruct("generator expression " + ast.unparse(e)[:80])
    return _orig_expr(self, e, env)


Evaluator.expr = _expr_with_genexp
