"""Worker for the E-Z input-side check (C06): CoerceOK vs Acc for every emitted input model."""
from __future__ import annotations

import ast
import time
import traceback
from typing import Any, Dict, List

import z3
from graphql import GraphQLInputObjectType, GraphQLList, GraphQLNonNull, Undefined, build_schema, coerce_input_value, get_named_type

from . import ez, ezin, gen
from .extract import Package
from .ezcheck import MAX_ITER, MAX_NEW, PkgRuntime, check_sat, match_known, solver_for

VALIDATE_IN = r'''
import importlib
def main(pkg, arg):
    mod = importlib.import_module(pkg + "." + arg["module"])
    M = getattr(mod, arg["model"])
    try:
        obj = M.model_validate(arg["value"])
        return {"accepted": True, "dump": obj.model_dump(by_alias=True, exclude_unset=True, mode="json")}
    except Exception as e:
        try:
            errs = [{"loc": [str(x) for x in er["loc"]], "type": er["type"]} for er in e.errors()]
        except Exception:
            errs = [{"loc": [], "type": type(e).__name__ + ": " + str(e)[:200]}]
        return {"accepted": False, "errors": errs}
'''


def real_coerce_ok(schema, tname, value) -> bool:
    try:
        coerce_input_value(value, schema.type_map[tname])
        return True
    except Exception:  # noqa: BLE001 GraphQLError
        return False


def position_of(node) -> Dict[str, Any]:
    """features of an input position used in signatures"""
    par = node.parent
    in_list = par is not None and par.elems is not None
    d = {"expect": str(node.expect), "in_list": in_list}
    if in_list:
        d["list_type"] = str(par.expect)
    return d


def analyze_inputs(job: dict) -> dict:
    out: Dict[str, Any] = {"findings": [], "stats": {"solver_s": 0.0, "sat": 0, "unsat": 0, "unknown": 0, "types": 0, "nodes": 0, "holes": 0, "replays": 0},
                           "inconclusive": [], "harness_errors": [], "samples": [], "gen": None}
    rt = None
    try:
        res = gen.generate(job)
        out["gen"] = {k: res.get(k) for k in ("ok", "exc_type", "exc_msg", "tb")}
        if res.get("harness_exc"):
            out["harness_errors"].append("generation harness: " + res["harness_exc"][-400:])
            return out
        if not res["ok"]:
            return out
        pkg = Package(res["files"])
        rt = PkgRuntime(res["files"])
        imp = rt.import_report()
        out["import"] = imp
        if any(v != "ok" for v in imp["modules"].values()) or imp["incomplete"]:
            out["import_failed"] = True
            return out
        ns: Dict[str, Any] = {}
        exec(compile(VALIDATE_IN, "<validate_in>", "exec"), ns)
        sdl = job["schema"]
        schema = build_schema(sdl)
        imod = job.get("config", {}).get("input_types_module_name", "input_types")
        known = job.get("known") or []
        stats = out["stats"]
        for tname, t in schema.type_map.items():
            if not isinstance(t, GraphQLInputObjectType) or tname.startswith("__"):
                continue
            if job.get("types") and tname not in job["types"]:
                continue
            ci = pkg.resolve(imod, tname)
            if ci is None:
                out["findings"].append({"sig": {"q": "input", "problem": "class_missing"}, "what": f"no class for input type {tname} in {imod}.py",
                                        "replay": {"schema": sdl, "type": tname}})
                continue
            stats["types"] += 1
            try:
                analyze_type(job, sdl, schema, pkg, rt, ns, t, ci, known, out)
            except ez.Unsupported as e:
                out["inconclusive"].append(f"{tname}: annotation construct without semantics: {e}")
    except BaseException as e:  # noqa: BLE001
        out["harness_errors"].append("analyze_inputs: " + "".join(traceback.format_exception(type(e), e, e.__traceback__))[-1500:])
    finally:
        if rt is not None:
            rt.close()
    return out


def analyze_type(job, sdl, schema, pkg, rt, ns, t, ci, known, out):
    stats = out["stats"]
    doc_stub = type("D", (), {"definitions": []})()
    ctx = ez.Ctx(schema, doc_stub, pkg, L=job.get("L", 2))
    ctx.scalar_domain = dict(job.get("scalar_domain") or {})
    r = ezin.build_input(ctx, GraphQLNonNull(t), (), z3.BoolVal(True), job.get("depth", 2))
    stats["nodes"] += len(ctx.nodes)
    C = ezin.coerce_ok(ctx, r, r.expect)
    ann = ast.Name(id=ci.name)

    def real(value, by_name):
        stats["replays"] += 1
        v = ezin.to_python_keys(pkg, ci, value) if by_name else value
        return ns["main"](rt.pkgname, {"module": ci.module, "model": ci.name, "value": v}), v

    def add(sig, what, value, extra=None):
        out["findings"].append({"sig": sig, "what": what, "replay": {"schema": sdl, "config": job.get("config") or {}, "type": t.name, "value": value, **(extra or {})}})

    # a field whose Python name is an attribute of pydantic's BaseModel (model_dump, copy, json, ...) replaces that attribute on the
    # instance: the model may still validate, but it can no longer be dumped / sent
    import pydantic as _pyd

    _attrs = {a for a in dir(_pyd.BaseModel) if not a.startswith("_")}
    for f in pkg.all_fields(ci).values():
        if f.name in _attrs:
            add({"q": "input_shadow", "problem": "field_shadows_basemodel_attribute", "name": f.name},
                f"{ci.name}.{f.name} (GraphQL name {f.key!r}) shadows pydantic.BaseModel.{f.name}", None, {"q": "input_shadow", "field": f.name})
    # image of configured scalars on the input side: a field whose GraphQL type is (a list of) a configured scalar must be typed with
    # the configured Python type, never Any (with Any neither the type nor the serializer applies)
    if ctx.scalar_domain:
        bykey = {f.key: f for f in pkg.all_fields(ci).values()}
        for fname, gf in t.fields.items():
            if get_named_type(gf.type).name in ctx.scalar_domain and fname in bykey:
                f = bykey[fname]
                if any(isinstance(n, ast.Name) and n.id == "Any" for n in ast.walk(f.ann)):
                    add({"q": "input_image", "problem": "configured_scalar_typed_any", "field_type": str(gf.type)},
                        f"{ci.name}.{f.name} is annotated {ast.unparse(f.ann)} although scalar {get_named_type(gf.type).name} is configured with a type", None, {"q": "input_image"})
    s0 = solver_for(ctx, C)
    if check_sat(s0, stats) != "sat":
        out["harness_errors"].append(f"{t.name}: CoerceOK unsatisfiable")
        return
    w = ez.concretize(ctx, s0.model(), r)
    if not real_coerce_ok(schema, t.name, w):
        out["harness_errors"].append(f"{t.name}: encoding says coercible, graphql-core refuses {w}")
        return
    if len(out["samples"]) < 3:
        out["samples"].append({"input_type": t.name, "nodes": len(ctx.nodes), "coercible_witness": w})

    for by_name in (False, True):
        up = ezin.PydIn(ctx, +1, by_name)
        A = up.acc_class(ci, r)
        s = solver_for(ctx, C, z3.Not(A))
        new = 0
        for _ in range(MAX_ITER):
            res = check_sat(s, stats)
            if res == "unsat":
                break
            if res != "sat":
                out["inconclusive"].append(f"{t.name}: Q1 solver {res}")
                break
            m = s.model()
            value = ez.concretize(ctx, m, r)
            rr, used = real(value, by_name)
            if not real_coerce_ok(schema, t.name, value) or rr["accepted"]:
                out["harness_errors"].append(f"{t.name}: input counterexample does not replay (coercible={real_coerce_ok(schema, t.name, value)}, accepted={rr['accepted']}) by_name={by_name} value={value}")
                break
            culprits = ez.explain(ezin.PydIn(ctx, +1, False), m, ann, r, ci.module) if not by_name else []
            sig = {"q": "input_accept", "by_name": by_name, "pydantic_error": (rr.get("errors") or [{}])[0].get("type")}
            block = z3.Not(z3.And(*[n.tag == m.eval(n.tag, model_completion=True) for n in ctx.nodes][:40]))
            if culprits:
                c = culprits[0]
                n = c["node"]
                sig["reason"] = c["reason"]
                if c["reason"] == "missing":
                    sig["key"] = c.get("key")
                    ent = n.variants[0].get(c["key"]) if n.variants else None
                    if ent is not None:
                        block = ent[0]
                else:
                    sig.update(position_of(n))
                    sig["value_kind"] = c.get("kind")
                    sig["ann"] = c.get("ann")
                    if c.get("kind"):
                        block = z3.Not(z3.And(n.live, ez.kind_pred(n, c["kind"])))
            what = f"schema-valid value rejected by input model {ci.name} ({'by field name' if by_name else 'by GraphQL name'}): {rr.get('errors', [])[:2]} value={used}"
            e = match_known(known, sig)
            add(sig, what, value, {"by_name": by_name, "q": "input_accept"})
            if e is None:
                new += 1
                if new >= MAX_NEW:
                    break
            s.add(block)

    # a required field (non-null, no default) missing must be refused
    dn = ezin.PydIn(ctx, -1, False)
    A_dn = dn.acc_class(ci, r)
    for n in ctx.nodes:
        if n.variants is None or not n.variants[0]:
            continue
        it = get_named_type(n.expect)
        for fname, (p, _c, sub, ftype, _fn) in n.variants[0].items():
            if not (isinstance(ftype, GraphQLNonNull) and it.fields[fname].default_value is Undefined):
                continue
            stats["holes"] += 1
            Ch = ezin.coerce_ok(ctx, r, r.expect, {"obj": n, "key": fname})
            s = solver_for(ctx, Ch, z3.And(n.live, n.is_obj()), A_dn)
            res = check_sat(s, stats)
            if res == "sat":
                m = s.model()
                value = ez.concretize(ctx, m, r)
                rr, _ = real(value, False)
                if real_coerce_ok(schema, t.name, value) or not rr["accepted"]:
                    out["harness_errors"].append(f"{t.name}: missing-required counterexample does not replay value={value}")
                    continue
                sig = {"q": "input_required", "field_type": str(ftype)}
                add(sig, f"input model {ci.name} accepts a value lacking required field {it.name}.{fname}: {value}", value, {"q": "input_required"})
            elif res != "unsat":
                out["inconclusive"].append(f"{t.name}: Q2 solver {res}")
