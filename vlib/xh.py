"""E-X: run CrossHair on harness functions (one OS process per function), parse verdicts, replay counterexamples.

A harness function takes int/bool parameters only, returns bool and carries `post: _`.  Its twin (prefix
`twin_`) has the same exploration but returns False on the interesting branch and must come back violated
(reachability / vacuity guard).
"""
from __future__ import annotations

import concurrent.futures as cf
import importlib
import json
import os
import re
import subprocess
import sys
import time
from dataclasses import dataclass, field
from typing import Any, Dict, List, Optional

PY = "/verif/.venv/bin/python"


@dataclass
class XResult:
    target: str
    status: str  # confirmed | counterexample | not_confirmed | unmet_pre | error
    message: str = ""
    call: Optional[str] = None
    wall: float = 0.0
    raw: str = ""
    hits: Dict[str, int] = field(default_factory=dict)
    paths: int = 0
    paths_confirmed: int = 0


def _run_one(target: str, timeout: int, per_path: int, env_extra: Dict[str, str]) -> XResult:
    env = dict(os.environ)
    env["PYTHONPATH"] = "/verif:/verif/.scratch" + (":" + os.environ["VERIF_REPO"] if os.environ.get("VERIF_REPO") else "")
    env["PYTHONDONTWRITEBYTECODE"] = "1"
    side = f"/verif/.scratch/xh_{os.getpid()}_{abs(hash(target)) % 10**8}_{time.time_ns()}.jsonl"
    os.makedirs("/verif/.scratch", exist_ok=True)
    env["VERIF_XH_SIDE"] = side
    env.update(env_extra)
    cmd = [PY, "-m", "crosshair", "check", "--unblock", "EVERYTHING", "--report_all", "--per_condition_timeout", str(timeout), "--per_path_timeout", str(per_path),
           "--analysis_kind", "PEP316", target]
    t0 = time.time()
    try:
        p = subprocess.run(cmd, capture_output=True, text=True, env=env, timeout=timeout * 3 + 120, cwd="/verif")
        out = p.stdout + p.stderr
    except subprocess.TimeoutExpired as e:
        out = "TIMEOUT " + str(e)
    wall = time.time() - t0
    hits: Dict[str, int] = {}
    paths = 0
    paths_confirmed = 0
    if os.path.exists(side):
        for ln in open(side):
            try:
                d = json.loads(ln)
            except ValueError:
                continue
            if d.get("k") == "path":
                paths += 1
                paths_confirmed += d.get("st") == "confirmed"
            elif d.get("k") == "known":
                hits[d["id"]] = hits.get(d["id"], 0) + 1
        os.unlink(side)
    res = XResult(target, "error", out.strip()[-1500:], wall=wall, raw=out[-4000:], hits=hits, paths=paths, paths_confirmed=paths_confirmed)
    if "Confirmed over all paths" in out:
        res.status = "confirmed"
    elif re.search(r"error: (false|False) when calling|error: .* when calling", out):
        res.status = "counterexample"
        m = re.search(r"when calling ([^\n]*?\))(?: \(which returns|\s*$)", out, re.M)
        if m:
            res.call = m.group(1)
        res.message = next((ln for ln in out.splitlines() if "error:" in ln), out[-300:])
    elif "Not confirmed" in out:
        res.status = "not_confirmed"
    elif "Unable to meet precondition" in out:
        res.status = "unmet_pre"
    return res


def _lint_no_nested_contracts(source: str) -> None:
    """CrossHair enforces the PEP316 contracts of *called* functions: a callee whose `post:` fails raises inside the caller,
    the caller's path is dropped and the caller can come back "Confirmed".  Generated partition functions must therefore only
    call contract-free helpers."""
    import ast
    import importlib

    for node in ast.parse(source).body:
        if isinstance(node, ast.ImportFrom) and node.module and node.module.startswith("harness"):
            mod = importlib.import_module(node.module)
            for a in node.names:
                obj = getattr(mod, a.name, None)
                doc = getattr(obj, "__doc__", None) or ""
                if callable(obj) and ("post:" in doc or "pre:" in doc):
                    raise RuntimeError(f"generated harness imports {node.module}.{a.name}, which carries its own contract")


def write_module(name: str, source: str) -> str:
    """generated harness module (explicit function definitions) under /verif/.scratch, importable as `name`"""
    _lint_no_nested_contracts(source)
    os.makedirs("/verif/.scratch", exist_ok=True)
    path = f"/verif/.scratch/{name}.py"
    with open(path, "w") as f:
        f.write(source)
    return name


def run_targets(targets: List[str], timeout: int, per_path: int = 30, workers: int = 16, env_extra: Optional[Dict[str, str]] = None) -> List[XResult]:
    with cf.ThreadPoolExecutor(max_workers=min(workers, max(1, len(targets)))) as ex:
        return list(ex.map(lambda t: _run_one(t, timeout, per_path, env_extra or {}), targets))


def replay_call(module: str, call: str) -> Any:
    """evaluate the counterexample call concretely (no CrossHair) in a fresh interpreter; returns the python value"""
    code = f"import json, {module} as M\nr = eval({call!r}, vars(M))\nprint('@@R@@' + json.dumps(bool(r)))"
    env = dict(os.environ)
    env["PYTHONPATH"] = "/verif:/verif/.scratch" + (":" + os.environ["VERIF_REPO"] if os.environ.get("VERIF_REPO") else "")
    p = subprocess.run([PY, "-c", code], capture_output=True, text=True, env=env, timeout=300, cwd="/verif")
    if "@@R@@" in p.stdout:
        return json.loads(p.stdout.split("@@R@@", 1)[1])
    return ("exception", (p.stderr or p.stdout)[-800:])


def fold(rep, module: str, results: List[XResult], pid_known_ids=None, twin_prefix="twin_"):
    """standard verdict handling: confirmed -> unsat; counterexample -> replay -> violation; others -> inconclusive.
    twins must be violated."""
    xp = rep.coverage.setdefault("crosshair_paths", {"conditions": 0, "explored": 0, "confirmed": 0, "by_condition": {}})
    for r in results:
        fn = r.target.rsplit(".", 1)[-1]
        rep.solver_s += r.wall
        xp["conditions"] += 1
        xp["explored"] += r.paths
        if not fn.startswith(twin_prefix):
            xp["confirmed"] += r.paths_confirmed
        xp["by_condition"][".".join(r.target.rsplit(".", 2)[-2:])] = [r.paths, r.paths_confirmed]
        for k, n in r.hits.items():
            # the harness saw a deviation it classifies as listed finding k: only acknowledged if the committed file lists it
            rep.violation({"harness_known": k}, {"module": module, "target": r.target, "hits": n}, f"{fn}: {n} explored paths deviate in the way classified as {k}")
        if fn.startswith(twin_prefix):
            if r.status == "counterexample":
                rep.queries["sat"] += 1
            else:
                rep.harness_error(f"reachability twin {fn} was not violated ({r.status}): harness is vacuous or timed out")
            continue
        if r.status == "confirmed":
            rep.queries["unsat"] += 1
        elif r.status == "counterexample":
            rep.queries["sat"] += 1
            val = replay_call(module, r.call) if r.call else ("exception", "no call parsed: " + r.message)
            if val is False or (isinstance(val, tuple) and val[0] == "exception" and r.call):
                rep.violation({"harness": fn, "call": r.call}, {"module": module, "call": r.call, "message": r.message},
                              f"{fn}: {r.message[:300]} (replayed concretely: {val})")
            else:
                rep.harness_error(f"{fn}: CrossHair counterexample {r.call} does not reproduce concretely ({val})")
        elif r.status in ("not_confirmed", "unmet_pre"):
            rep.queries["unknown"] += 1
            rep.note_inconclusive(f"{fn}: CrossHair {r.status} after {r.wall:.0f}s")
        else:
            rep.harness_error(f"{fn}: CrossHair failed: {r.message[-400:]}")
