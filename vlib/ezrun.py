"""Shared driver for the E-Z response-side checks: builds the corpus for a tier, fans out analyze(), folds results
into the Report."""
from __future__ import annotations

import json
from typing import Dict, List

from . import corpus, ezcheck, gen
from .boot import Report


def corpus_jobs(tier: str, seed: int) -> List[dict]:
    jobs: List[dict] = []
    if tier == "quick":
        ops = corpus.abstract_family(max_items=2, per_target=14, seed=seed)
        wdepth = 1
    else:
        ops = corpus.abstract_family(max_items=3, per_target=120, seed=seed)
        wdepth = 2
    for snake in (True, False):
        jobs += corpus.package_jobs_from_ops(corpus.S_ABS, ops if snake else ops[::3], corpus.FRAGS_ABS, 12, {"convert_to_snake_case": snake})
    sdl, wops = corpus.wrappers_ops(wdepth)
    jobs += corpus.package_jobs_from_ops(sdl, wops, {}, 10, {})
    return jobs


def fold(rep: Report, results: List[dict], jobs: List[dict], want_q: set, c04_cb=None):
    progs = ops = nodes = 0
    gen_fail = 0
    for job, r in zip(jobs, results):
        for he in r["harness_errors"]:
            rep.harness_error(he[:600])
        for inc in r["inconclusive"]:
            rep.note_inconclusive(inc[:300])
        st = r["stats"]
        rep.queries["sat"] += st["sat"]
        rep.queries["unsat"] += st["unsat"]
        rep.queries["unknown"] += st["unknown"]
        rep.solver_s += st["solver_s"]
        ops += st["ops"]
        nodes += st["nodes"]
        if r["gen"] and r["gen"]["ok"] and not r.get("import_failed"):
            progs += 1
        else:
            gen_fail += 1
        for s in r["samples"]:
            rep.sample(s)
        for f in r["findings"]:
            if f["sig"].get("q") in want_q:
                rep.violation(f["sig"], f["replay"], f["what"][:500])
    return progs, ops, nodes, gen_fail
