"""Shared driver for the E-Z response-side checks: builds the corpus for a tier, fans out analyze(), folds results
into the Report."""
from __future__ import annotations

import json
from typing import Dict, List

from . import corpus, ezcheck, gen
from .boot import Report


def corpus_jobs(tier: str, seed: int) -> List[dict]:
    jobs: List[dict] = []
    if tier == "quick":
        ops = corpus.abstract_family(max_items=2, per_target=14, seed=seed)
        wdepth = 1
    else:
        ops = corpus.abstract_family(max_items=3, per_target=120, seed=seed)
        wdepth = 2
    # one operation per package: an operation that makes generation or import fail must not hide the others
    for snake in (True, False):
        jobs += corpus.package_jobs_from_ops(corpus.S_ABS, ops if snake else ops[::3], corpus.FRAGS_ABS, 1, {"convert_to_snake_case": snake})
    sdl, wops = corpus.wrappers_ops(wdepth)
    jobs += corpus.package_jobs_from_ops(sdl, wops, {}, 10, {})
    jobs += corpus.misc_jobs()  # custom root names, mutation/subscription results, three levels of abstract nesting, enum/scalar lists
    return jobs


def fold(rep: Report, results: List[dict], jobs: List[dict], want_q: set, c04_cb=None):
    progs = ops = nodes = 0
    gen_fail = 0
    for job, r in zip(jobs, results):
        for he in r["harness_errors"]:
            rep.harness_error(he[:600])
        for inc in r["inconclusive"]:
            rep.note_inconclusive(inc[:300])
        st = r["stats"]
        rep.queries["sat"] += st["sat"]
        rep.queries["unsat"] += st["unsat"]
        rep.queries["unknown"] += st["unknown"]
        rep.solver_s += st["solver_s"]
        ops += st["ops"]
        nodes += st["nodes"]
        if r["gen"] and r["gen"]["ok"] and not r.get("import_failed"):
            progs += 1
        else:
            gen_fail += 1
            if c04_cb is not None:
                c04_cb(job, r)
        for s in r["samples"]:
            rep.sample(s)
        for f in r["findings"]:
            if f["sig"].get("q") in want_q:
                rep.violation(f["sig"], f["replay"], f["what"][:500])
    return progs, ops, nodes, gen_fail


def _is_abstract_without_field(job, tname, fname) -> bool:
    from graphql import build_schema, is_abstract_type

    try:
        t = build_schema(job["schema"]).type_map.get(tname)
    except Exception:
        return False
    return t is not None and is_abstract_type(t) and fname not in getattr(t, "fields", {})


def classify_unanalysable(job, r) -> dict:
    """signature of a corpus package that does not generate / load (so that listed defects are acknowledged, new ones reported)"""
    import re

    gen_ok = bool((r.get("gen") or {}).get("ok"))
    text = ((r.get("gen") or {}).get("exc_msg") or "") if not gen_ok else " ".join(v for v in (r.get("import") or {}).get("modules", {}).values() if v != "ok")
    q = job.get("queries") or ""
    if not gen_ok and "'NoneType' object has no attribute 'name'" in text and re.search(r"\.\.\.\s*(@\w+(\([^)]*\))?\s*)?\{", q):
        cls = "untyped_inline_fragment_crash"
    elif not gen_ok and (m := re.search(r"Field (\w+) not found in type (\w+)\.", text)) and _is_abstract_without_field(job, m.group(2), m.group(1)) and re.search(r"on\s+%s\b" % m.group(2), q):
        cls = "abstract_type_condition_inherits_parent_fields_crash"
    elif gen_ok and "needs a discriminator field" in text and re.search(r"\w+\s*:\s*__typename", q):
        cls = "aliased_typename_suppresses_discriminator"
    elif gen_ok and (re.search(r"cannot import name '\w+' from '[\w.]*fragments'", text) or re.search(r"No module named '[\w.]*fragments'", text)):
        cls = "fragment_excluded_but_imported"
    elif not gen_ok and (r["gen"] or {}).get("exc_type") == "builtins.KeyError":
        cls = "fragment_excluded_but_referenced"
    elif gen_ok and "consistent method resolution" in text:
        cls = "mro_conflict"
    else:
        cls = "other"
    return {"q": "package", "problem": "corpus_package_not_generated_or_not_loadable", "class": cls, "stage": "import" if gen_ok else "generation", "detail": text[:160] if cls == "other" else None}
