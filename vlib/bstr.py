"""E-S: bounded symbolic strings over z3 Ints (code points, 0 = padding) and a bounded symbolic re.findall.

A BStr has concrete capacity `cap`, symbolic length n (0..cap) and chars[i] == 0 for i >= n (well-formedness).
All operations are total, deterministic z3 terms (no fresh variables, no side constraints).
"""
from __future__ import annotations

import re._constants as sc
import re._parser as sp
from typing import Dict, List, Tuple

import z3

US = 95


class BStr:
    def __init__(self, chars, n):
        self.chars = list(chars)
        self.n = n
        self.cap = len(self.chars)

    def ch(self, i):
        return self.chars[i] if i < self.cap else z3.IntVal(0)


def mk(name: str, cap: int) -> BStr:
    return BStr([z3.Int(f"{name}_{i}") for i in range(cap)], z3.Int(f"{name}_n"))


def const(s: str) -> BStr:
    return BStr([z3.IntVal(ord(c)) for c in s], z3.IntVal(len(s)))


def is_upper(c):
    return z3.And(c >= 65, c <= 90)


def is_lower(c):
    return z3.And(c >= 97, c <= 122)


def is_digit(c):
    return z3.And(c >= 48, c <= 57)


def is_alpha(c):
    return z3.Or(is_upper(c), is_lower(c))


def is_word(c):
    return z3.Or(is_upper(c), is_lower(c), is_digit(c), c == US)


def wf(s: BStr, alphabet=is_word):
    return z3.And(s.n >= 0, s.n <= s.cap, *[z3.If(i < s.n, alphabet(s.chars[i]), s.chars[i] == 0) for i in range(s.cap)])


def gql_name(s: BStr):
    """[_A-Za-z][_0-9A-Za-z]*"""
    return z3.And(wf(s), s.n >= 1, z3.Not(is_digit(s.chars[0])))


def ascii_printable(c):
    return z3.And(c >= 32, c <= 126)


def eq(a: BStr, b: BStr):
    m = max(a.cap, b.cap)
    return z3.And(a.n == b.n, *[a.ch(i) == b.ch(i) for i in range(m)])


def eq_const(s: BStr, lit: str):
    if len(lit) > s.cap:
        return z3.BoolVal(False)
    return z3.And(s.n == len(lit), *[s.chars[i] == ord(ch) for i, ch in enumerate(lit)])


def in_list(s: BStr, lits):
    lits = [l for l in lits if len(l) <= s.cap]
    return z3.Or(*[eq_const(s, l) for l in lits]) if lits else z3.BoolVal(False)


def ite(c, a: BStr, b: BStr) -> BStr:
    m = max(a.cap, b.cap)
    return BStr([z3.If(c, a.ch(i), b.ch(i)) for i in range(m)], z3.If(c, a.n, b.n))


def concat(a: BStr, b: BStr) -> BStr:
    cap = a.cap + b.cap
    chars = []
    for k in range(cap):
        e = z3.IntVal(0)
        # position k belongs to b at offset k - a.n when a.n <= k
        for j in range(min(a.cap, k), -1, -1):
            if k - j < b.cap:
                e = z3.If(a.n == j, b.chars[k - j], e)
        if k < a.cap:
            e = z3.If(k < a.n, a.chars[k], e)
        chars.append(e)
    return BStr(chars, a.n + b.n)


def lower_c(c):
    return z3.If(is_upper(c), c + 32, c)


def upper_c(c):
    return z3.If(is_lower(c), c - 32, c)


def lower(s: BStr) -> BStr:
    return BStr([lower_c(c) for c in s.chars], s.n)


def lstrip_char(s: BStr, code: int) -> BStr:
    pref = []
    acc = z3.BoolVal(True)
    for i in range(s.cap):
        acc = z3.And(acc, i < s.n, s.chars[i] == code)
        pref.append(acc)
    lead = z3.Sum([z3.If(p, 1, 0) for p in pref] + [z3.IntVal(0)])
    chars = []
    for k in range(s.cap):
        e = z3.IntVal(0)
        for sh in range(s.cap - k):
            e = z3.If(lead == sh, s.chars[k + sh], e)
        chars.append(z3.If(k < s.n - lead, e, 0))
    return BStr(chars, s.n - lead)


def startswith_const(s: BStr, lit: str):
    if len(lit) > s.cap:
        return z3.BoolVal(False)
    return z3.And(s.n >= len(lit), *[s.chars[i] == ord(ch) for i, ch in enumerate(lit)])


def is_ascii_identifier(s: BStr):
    return z3.And(s.n >= 1, z3.Not(is_digit(s.chars[0])), *[z3.Or(i >= s.n, is_word(s.chars[i])) for i in range(s.cap)])


def charset_is(s: BStr, code: int):
    """set(s) == {chr(code)}"""
    return z3.And(s.n >= 1, *[z3.Or(i >= s.n, s.chars[i] == code) for i in range(s.cap)])


def pascal(s: BStr, sep: int = US) -> BStr:
    """''.join(n[:1].upper() + n[1:] for n in s.split(chr(sep)))"""
    keep = [z3.And(i < s.n, s.chars[i] != sep) for i in range(s.cap)]
    first = [z3.BoolVal(True) if i == 0 else s.chars[i - 1] == sep for i in range(s.cap)]
    idx = [z3.Sum([z3.If(keep[q], 1, 0) for q in range(p)] + [z3.IntVal(0)]) for p in range(s.cap)]
    out_n = z3.Sum([z3.If(k, 1, 0) for k in keep] + [z3.IntVal(0)])
    chars = []
    for k in range(s.cap):
        e = z3.IntVal(0)
        for p in reversed(range(k, s.cap)):
            e = z3.If(z3.And(keep[p], idx[p] == k), z3.If(first[p], upper_c(s.chars[p]), s.chars[p]), e)
        chars.append(e)
    return BStr(chars, out_n)


def show(m, s: BStr) -> str:
    L = m.eval(s.n, model_completion=True).as_long()
    L = max(0, min(L, s.cap))
    return "".join(chr(m.eval(s.chars[i], model_completion=True).as_long()) for i in range(L))


def letters_digits_kept(x: BStr, out: BStr, case_insensitive: bool):
    """the alphanumeric characters of x appear in out, in order, and out has no other alphanumerics"""
    def alnum(c):
        return z3.Or(is_alpha(c), is_digit(c))

    def norm(c):
        return lower_c(c) if case_insensitive else c

    # k-th alphanumeric of each string must match: compare the projected sequences position by position
    def proj(s: BStr):
        keep = [z3.And(i < s.n, alnum(s.chars[i])) for i in range(s.cap)]
        idx = [z3.Sum([z3.If(keep[q], 1, 0) for q in range(p)] + [z3.IntVal(0)]) for p in range(s.cap)]
        cnt = z3.Sum([z3.If(k, 1, 0) for k in keep] + [z3.IntVal(0)])
        chars = []
        for k in range(s.cap):
            e = z3.IntVal(0)
            for p in reversed(range(k, s.cap)):
                e = z3.If(z3.And(keep[p], idx[p] == k), norm(s.chars[p]), e)
            chars.append(e)
        return BStr(chars, cnt)

    return eq(proj(x), proj(out))


# ------------------------------------------------------------------------------------------------------
# regex -> z3 (continuation passing over concrete positions)
def cls_cond(items, c):
    neg = False
    conds = []
    for op, av in items:
        if op is sc.NEGATE:
            neg = True
        elif op is sc.LITERAL:
            conds.append(c == av)
        elif op is sc.RANGE:
            conds.append(z3.And(c >= av[0], c <= av[1]))
        elif op is sc.CATEGORY:
            conds.append({sc.CATEGORY_DIGIT: is_digit(c), sc.CATEGORY_NOT_DIGIT: z3.Not(is_digit(c)),
                          sc.CATEGORY_WORD: is_word(c), sc.CATEGORY_NOT_WORD: z3.Not(is_word(c)),
                          sc.CATEGORY_SPACE: z3.Or(c == 32, z3.And(c >= 9, c <= 13)),
                          sc.CATEGORY_NOT_SPACE: z3.Not(z3.Or(c == 32, z3.And(c >= 9, c <= 13)))}[av])
        else:
            raise NotImplementedError(op)
    r = z3.Or(*conds) if conds else z3.BoolVal(False)
    return z3.Not(r) if neg else r


def _m(seq, idx, s: BStr, pos, cond, k):
    if idx == len(seq):
        k(pos, cond)
        return
    op, av = seq[idx]

    def rest(p, c):
        _m(seq, idx + 1, s, p, c, k)

    def char(pred):
        if pos < s.cap:
            rest(pos + 1, z3.And(cond, pos < s.n, pred(s.chars[pos])))

    if op is sc.LITERAL:
        char(lambda c: c == av)
    elif op is sc.NOT_LITERAL:
        char(lambda c: c != av)
    elif op is sc.IN:
        char(lambda c: cls_cond(av, c))
    elif op is sc.ANY:
        char(lambda c: c != 10)
    elif op is sc.SUBPATTERN:
        _m(list(av[3]) + seq[idx + 1:], 0, s, pos, cond, k)
    elif op is sc.BRANCH:
        for alt in av[1]:
            _m(list(alt) + seq[idx + 1:], 0, s, pos, cond, k)
    elif op is sc.AT:
        if av in (sc.AT_END, sc.AT_END_STRING):
            rest(pos, z3.And(cond, s.n == pos))  # no '\n' in the alphabets used
        elif av in (sc.AT_BEGINNING, sc.AT_BEGINNING_STRING):
            if pos == 0:
                rest(pos, cond)
        else:
            raise NotImplementedError(av)
    elif op in (sc.ASSERT, sc.ASSERT_NOT):
        direction, sub = av
        if direction != 1:
            raise NotImplementedError("lookbehind")
        alts: List = []
        _m(list(sub), 0, s, pos, z3.BoolVal(True), lambda p, c: alts.append(c))
        any_ = z3.Or(*alts) if alts else z3.BoolVal(False)
        rest(pos, z3.And(cond, any_ if op is sc.ASSERT else z3.Not(any_)))
    elif op in (sc.MAX_REPEAT, sc.MIN_REPEAT):
        lo, hi, sub = av
        sub = list(sub)
        greedy = op is sc.MAX_REPEAT

        def rep(count, p, c):
            def more():
                if (hi is sc.MAXREPEAT or count < hi) and p < s.cap:
                    def after(p2, c2):
                        if p2 > p:
                            rep(count + 1, p2, c2)
                    _m(sub, 0, s, p, c, after)

            def stop():
                if count >= lo:
                    rest(p, c)

            if greedy:
                more()
                stop()
            else:
                stop()
                more()

        rep(0, pos, cond)
    else:
        raise NotImplementedError(op)


def candidates(pattern: str, s: BStr, pos: int):
    out: List[Tuple[int, object]] = []
    _m(list(sp.parse(pattern)), 0, s, pos, z3.BoolVal(True), lambda p, c: out.append((p, c)))
    return out


class Tokens:
    """result of re.findall(pattern, s) for a pattern without groups: tok[(i, j)] <=> s[i:j] is yielded"""

    def __init__(self, s: BStr, tok: Dict[Tuple[int, int], object]):
        self.s, self.tok = s, tok


def findall(pattern: str, s: BStr) -> Tokens:
    if sp.parse(pattern).state.groups > 1:
        raise NotImplementedError("findall with groups")
    N = s.cap
    at = [z3.BoolVal(i == 0) for i in range(N + 2)]
    tok: Dict[Tuple[int, int], object] = {}
    for i in range(N + 1):
        prev_none = z3.BoolVal(True)
        for e, c in candidates(pattern, s, i):
            chosen = z3.And(at[i], i <= s.n, prev_none, c)
            prev_none = z3.And(prev_none, z3.Not(c))
            if e > i:
                tok[(i, e)] = z3.Or(tok.get((i, e), z3.BoolVal(False)), chosen)
                at[e] = z3.Or(at[e], chosen)
            else:
                tok[(i, i)] = z3.Or(tok.get((i, i), z3.BoolVal(False)), chosen)
                at[i + 1] = z3.Or(at[i + 1], chosen)
        at[i + 1] = z3.Or(at[i + 1], z3.And(at[i], i < s.n, prev_none))
    return Tokens(s, tok)


def join_tokens(t: Tokens, sep: int, mapper=lower_c) -> BStr:
    """sep.join(map(mapper, tokens)) for non-empty tokens (empty tokens are treated as unsupported)"""
    s = t.s
    tok = {k: v for k, v in t.tok.items() if k[1] > k[0]}
    covered = [z3.Or(*[v for (i, j), v in tok.items() if i <= p < j] or [z3.BoolVal(False)]) for p in range(s.cap)]
    start = [z3.Or(*[v for (i, j), v in tok.items() if i == p] or [z3.BoolVal(False)]) for p in range(s.cap)]
    idx = []
    for p in range(s.cap):
        idx.append(z3.Sum([z3.If(covered[q], 1, 0) for q in range(p)] + [z3.If(start[q], 1, 0) for q in range(p + 1)] + [z3.IntVal(-1)]))
    ntok = z3.Sum([z3.If(st, 1, 0) for st in start] + [z3.IntVal(0)])
    ncov = z3.Sum([z3.If(c, 1, 0) for c in covered] + [z3.IntVal(0)])
    out_n = z3.If(ntok == 0, 0, ncov + ntok - 1)
    cap = 2 * s.cap - 1 if s.cap > 0 else 0
    chars = []
    for k in range(cap):
        e = z3.IntVal(0)
        for p in reversed(range(s.cap)):
            e = z3.If(z3.And(covered[p], idx[p] == k), mapper(s.chars[p]),
                      z3.If(z3.And(start[p], idx[p] - 1 == k, k >= 0), z3.IntVal(sep), e))
        chars.append(z3.If(k < out_n, e, 0))
    return BStr(chars, out_n)


def has_empty_token(t: Tokens):
    return z3.Or(*[v for (i, j), v in t.tok.items() if i == j] or [z3.BoolVal(False)])
