"""PermSet + import hook (C10 / C08): every set construction inside ariadne_codegen.* becomes a PermSet
whose iteration order is decided by ORACLE.rank(element)."""
import ast, sys, importlib.abc, importlib.machinery, importlib.util

class Oracle:
    def __init__(self): self.ranks = {}
    def rank(self, e): return self.ranks.get(e, 0)
ORACLE = Oracle()

class PermSet:
    def __init__(self, items=()):
        self._d = {}
        for i in items: self._d[i] = None
    def _order(self):
        items = list(self._d)
        # insertion sort by oracle rank (stable): comparisons on symbolic ranks fork paths
        out = []
        for it in items:
            r = ORACLE.rank(it); k = len(out)
            while k > 0 and ORACLE.rank(out[k - 1]) > r: k -= 1
            out.insert(k, it)
        return out
    def __iter__(self): return iter(self._order())
    def __len__(self): return len(self._d)
    def __contains__(self, x): return x in self._d
    def __bool__(self): return len(self._d) > 0
    def add(self, x): self._d[x] = None
    def update(self, *others):
        for o in others:
            for x in o: self._d[x] = None
    def discard(self, x): self._d.pop(x, None)
    def copy(self): return PermSet(self._d)
    def union(self, *others):
        r = self.copy(); r.update(*others); return r
    __or__ = lambda self, o: self.union(o)
    def difference(self, *others):
        r = PermSet(x for x in self._d if not any(x in o for o in others)); return r
    __sub__ = lambda self, o: self.difference(o)
    def intersection(self, *others): return PermSet(x for x in self._d if all(x in o for o in others))
    __and__ = lambda self, o: self.intersection(o)
    def __eq__(self, o):
        try: return len(self) == len(o) and all(x in o for x in self._d)
        except TypeError: return NotImplemented
    def __repr__(self): return "PermSet(%r)" % (list(self._d),)
    def __class_getitem__(cls, item): return cls
    def __hash__(self): raise TypeError("unhashable type: 'PermSet'")
    def issubset(self, o): return all(x in o for x in self._d)
    def issuperset(self, o): return all(x in self._d for x in o)
    __le__ = lambda self, o: self.issubset(o)
    __ge__ = lambda self, o: self.issuperset(o)
    def remove(self, x): del self._d[x]
    def pop(self):
        k = self._order()[0]; del self._d[k]; return k
    def clear(self): self._d.clear()
    def isdisjoint(self, o): return not any(x in o for x in self._d)
    def symmetric_difference(self, o): return PermSet([x for x in self._d if x not in o] + [x for x in o if x not in self._d])
    __xor__ = lambda self, o: self.symmetric_difference(o)
    def __ior__(self, o): self.update(o); return self
    def __isub__(self, o):
        for x in list(o): self._d.pop(x, None)
        return self
    def __ror__(self, o): return PermSet(o).union(self)
    def __rsub__(self, o): return PermSet(o).difference(self)

class _T(ast.NodeTransformer):
    def visit_Set(self, node):
        self.generic_visit(node)
        return ast.copy_location(ast.Call(func=ast.Name("_vPermSet_", ast.Load()), args=[ast.List(node.elts, ast.Load())], keywords=[]), node)
    def visit_SetComp(self, node):
        self.generic_visit(node)
        return ast.copy_location(ast.Call(func=ast.Name("_vPermSet_", ast.Load()), args=[ast.ListComp(node.elt, node.generators)], keywords=[]), node)

class _Loader(importlib.machinery.SourceFileLoader):
    def source_to_code(self, data, path, *, _optimize=-1):
        tree = ast.parse(data, path)
        tree = ast.fix_missing_locations(_T().visit(tree))
        return compile(tree, path, "exec", dont_inherit=True, optimize=_optimize)
    def exec_module(self, module):
        module.__dict__["_vPermSet_"] = PermSet
        module.__dict__["set"] = PermSet
        super().exec_module(module)

class _Finder(importlib.abc.MetaPathFinder):
    def find_spec(self, name, path, target=None):
        if not (name == "ariadne_codegen" or name.startswith("ariadne_codegen.")): return None
        if name.startswith("ariadne_codegen.client_generators.dependencies"): return None
        spec = importlib.machinery.PathFinder.find_spec(name, path)
        if spec and spec.origin and spec.origin.endswith(".py"):
            spec.loader = _Loader(name, spec.origin)
        return spec

def install():
    for k in [k for k in sys.modules if k == "ariadne_codegen" or k.startswith("ariadne_codegen.")]: del sys.modules[k]
    sys.meta_path.insert(0, _Finder())
