"""Emitted package (dict filename -> source) -> classes / enums / client methods, read from the emitted ASTs."""
from __future__ import annotations

import ast
import textwrap
from dataclasses import dataclass, field
from typing import Dict, List, Optional, Tuple

SKIP_MODULES = {
    "__init__", "async_base_client", "base_client", "async_base_client_open_telemetry", "base_client_open_telemetry",
    "exceptions", "base_operation",
}


@dataclass
class FieldInfo:
    name: str
    ann: ast.expr
    alias: Optional[str] = None
    has_default: bool = False
    default_src: Optional[str] = None  # python source of default / "factory:<src>"
    discriminator: Optional[str] = None
    raw_value: Optional[str] = None
    module: Optional[str] = None  # module of the class that defines the field: forward references resolve there

    @property
    def key(self) -> str:
        return self.alias or self.name


@dataclass
class ClassInfo:
    name: str
    module: str
    bases: List[str]
    fields: Dict[str, FieldInfo]
    is_enum: bool = False
    enum_members: List[Tuple[str, object]] = field(default_factory=list)  # (python member name, value)
    lineno: int = 0
    src: str = ""

    @property
    def enum_values(self):
        return [v for _, v in self.enum_members]


@dataclass
class MethodInfo:
    name: str
    is_async: bool
    args: List[Tuple[str, str, Optional[str]]]  # (name, annotation src, default src)
    query: Optional[str]
    query_src: Optional[str]  # how the query was obtained: "inline" or constant name
    operation_name: Optional[str]
    variables_src: Optional[str]
    variables: Dict[str, str]  # wire key -> python expr source
    model: Optional[str]
    projection: Optional[str]  # trailing attribute after model_validate(...)
    returns: Optional[str]
    is_subscription: bool = False
    body_src: str = ""


@dataclass
class Module:
    name: str
    tree: ast.Module
    classes: Dict[str, ClassInfo]
    imports: Dict[str, Tuple[str, str, int]]  # local name -> (module, original name, level)
    constants: Dict[str, object]
    rebuild_calls: List[str]
    defined_order: List[str]


class Package:
    def __init__(self, files: Dict[str, str], pkg: str = "gcl"):
        self.files = files
        self.pkg = pkg
        self.modules: Dict[str, Module] = {}
        self.errors: List[str] = []
        for fn, src in sorted(files.items()):
            if not fn.endswith(".py") or "/" in fn:
                continue
            name = fn[:-3]
            try:
                tree = ast.parse(src)
            except SyntaxError as e:
                self.errors.append(f"{fn}: SyntaxError {e}")
                continue
            if name in SKIP_MODULES:
                continue
            self.modules[name] = extract_module(name, tree, src)

    # -- name resolution ---------------------------------------------------------------
    def resolve(self, module: str, name: str) -> Optional[ClassInfo]:
        seen = set()
        while (module, name) not in seen:
            seen.add((module, name))
            m = self.modules.get(module)
            if m is None:
                return None
            if name in m.classes:
                return m.classes[name]
            imp = m.imports.get(name)
            if imp is None or imp[2] != 1:
                return None
            module, name = imp[0], imp[1]
        return None

    def all_fields(self, ci: ClassInfo) -> Dict[str, FieldInfo]:
        """pydantic's collect_model_fields: leftmost base wins among bases, own annotations win over bases."""
        res: Dict[str, FieldInfo] = {}
        for b in reversed(ci.bases):
            bc = self.resolve(ci.module, b)
            if bc is not None and not bc.is_enum:
                res.update(self.all_fields(bc))
        res.update(ci.fields)
        return res

    def is_subclass(self, ci: ClassInfo, target: ClassInfo) -> bool:
        if ci is target or (ci.module == target.module and ci.name == target.name):
            return True
        for b in ci.bases:
            bc = self.resolve(ci.module, b)
            if bc is not None and self.is_subclass(bc, target):
                return True
        return False

    def unknown_bases(self, ci: ClassInfo) -> List[str]:
        out = []
        if ci.module == "base_model" and ci.name == "BaseModel":
            return out  # the package's own pydantic root (config: populate_by_name, extra ignored)
        for b in ci.bases:
            bc = self.resolve(ci.module, b)
            if bc is None:
                if b != "BaseModel":
                    out.append(b)
            else:
                out.extend(self.unknown_bases(bc))
        return out

    def client_methods(self, client_module: str = "client") -> List[MethodInfo]:
        m = self.modules.get(client_module)
        if m is None:
            return []
        out = []
        for cls in [n for n in m.tree.body if isinstance(n, ast.ClassDef)]:
            for fn in cls.body:
                if isinstance(fn, (ast.FunctionDef, ast.AsyncFunctionDef)):
                    mi = extract_method(fn, m, self)
                    if mi is not None:
                        out.append(mi)
        return out


def _parse_field_call(call: ast.Call, fi: FieldInfo):
    for kw in call.keywords:
        if kw.arg == "alias":
            fi.alias = ast.literal_eval(kw.value)
        elif kw.arg == "default":
            fi.has_default = True
            fi.default_src = ast.unparse(kw.value)
        elif kw.arg == "default_factory":
            fi.has_default = True
            fi.default_src = "factory:" + ast.unparse(kw.value)
        elif kw.arg == "discriminator":
            fi.discriminator = ast.literal_eval(kw.value)


def extract_module(name: str, tree: ast.Module, src: str) -> Module:
    classes: Dict[str, ClassInfo] = {}
    imports: Dict[str, Tuple[str, str, int]] = {}
    constants: Dict[str, object] = {}
    rebuilds: List[str] = []
    order: List[str] = []
    for node in tree.body:
        if isinstance(node, ast.ImportFrom):
            for a in node.names:
                imports[a.asname or a.name] = (node.module or "", a.name, node.level)
        elif isinstance(node, ast.Import):
            for a in node.names:
                imports[a.asname or a.name.split(".")[0]] = (a.name, "", 0)
        elif isinstance(node, ast.If):  # TYPE_CHECKING blocks (ClientForwardRefs plugin)
            for sub in node.body:
                if isinstance(sub, ast.ImportFrom):
                    for a in sub.names:
                        imports.setdefault(a.asname or a.name, (sub.module or "", a.name, sub.level))
        elif isinstance(node, ast.Assign) and len(node.targets) == 1 and isinstance(node.targets[0], ast.Name):
            try:
                constants[node.targets[0].id] = ast.literal_eval(node.value)
            except (ValueError, SyntaxError):
                pass
        elif isinstance(node, ast.Expr) and isinstance(node.value, ast.Call):
            f = node.value.func
            if isinstance(f, ast.Attribute) and f.attr == "model_rebuild" and isinstance(f.value, ast.Name):
                rebuilds.append(f.value.id)
        elif isinstance(node, ast.ClassDef):
            bases = [ast.unparse(b) for b in node.bases]
            ci = ClassInfo(node.name, name, bases, {}, lineno=node.lineno, src=ast.unparse(node))
            if "Enum" in bases:
                ci.is_enum = True
                for st in node.body:
                    if isinstance(st, ast.Assign) and isinstance(st.targets[0], ast.Name):
                        try:
                            ci.enum_members.append((st.targets[0].id, ast.literal_eval(st.value)))
                        except (ValueError, SyntaxError):
                            ci.enum_members.append((st.targets[0].id, ast.unparse(st.value)))
            else:
                # Python evaluates a class body top-down: once a field `str: Optional[str] = None` has been assigned, the NAME str
                # means None for every later annotation in this class body
                rebound: Dict[str, ast.expr] = {}
                for st in node.body:
                    if isinstance(st, ast.AnnAssign) and isinstance(st.target, ast.Name):
                        n = st.target.id
                        if n.startswith("_"):
                            continue  # pydantic: an annotated name with a leading underscore is a private attribute, not a field
                        ann_ast = _subst_rebound(st.annotation, rebound) if rebound else st.annotation
                        if st.value is not None:
                            rebound[n] = st.value
                        fi = ci.fields.get(n) or FieldInfo(n, ann_ast)
                        fi.ann = ann_ast
                        fi.module = name
                        if st.value is not None:
                            fi.raw_value = ast.unparse(st.value)
                            fi.alias = None
                            fi.has_default = False
                            fi.default_src = None
                            fi.discriminator = None
                            if isinstance(st.value, ast.Call) and ast.unparse(st.value.func) == "Field":
                                _parse_field_call(st.value, fi)
                            else:
                                fi.has_default = True
                                fi.default_src = ast.unparse(st.value)
                        ci.fields[n] = fi
            classes[node.name] = ci
            order.append(node.name)
    return Module(name, tree, classes, imports, constants, rebuilds, order)


class _Rebind(ast.NodeTransformer):
    def __init__(self, rebound):
        self.rebound = rebound

    def visit_Name(self, n):  # noqa: N802
        v = self.rebound.get(n.id)
        if v is not None and isinstance(v, ast.Constant) and v.value is None:
            return ast.copy_location(ast.Constant(value=None), n)
        if v is not None:
            return ast.copy_location(ast.Name(id="__rebound_" + n.id, ctx=ast.Load()), n)  # unknown to the acceptance model: reported
        return n

    def visit_Constant(self, n):  # noqa: N802
        return n  # forward references (strings) are resolved by pydantic in the module namespace, not the class body


def _subst_rebound(ann: ast.expr, rebound) -> ast.expr:
    import copy

    return _Rebind(rebound).visit(copy.deepcopy(ann))


def extract_method(fn, m: Module, pkg: Package) -> Optional[MethodInfo]:
    query = None
    qsrc = None
    opname = None
    var_src = None
    variables: Dict[str, str] = {}
    model = None
    projection = None
    is_sub = False
    var_local = "variables"
    for n in ast.walk(fn):
        if isinstance(n, ast.Call) and ast.unparse(n.func) in ("self.execute", "self.execute_ws"):
            for kw in n.keywords:
                if kw.arg == "variables" and isinstance(kw.value, ast.Name):
                    var_local = kw.value.id
    for n in ast.walk(fn):
        if isinstance(n, ast.Call):
            fname = ast.unparse(n.func)
            if fname == "gql" and n.args:
                a = n.args[0]
                try:
                    query = ast.literal_eval(a)
                    qsrc = "inline"
                except (ValueError, SyntaxError):
                    if isinstance(a, ast.Name):
                        qsrc = a.id
                        imp = m.imports.get(a.id)
                        if a.id in m.constants:
                            query = m.constants[a.id]
                        elif imp and imp[2] == 1 and imp[0] in pkg.modules:
                            query = pkg.modules[imp[0]].constants.get(imp[1])
                        elif imp and imp[2] == 1:
                            # module skipped / not parsed as generated: parse lazily
                            src = pkg.files.get(imp[0] + ".py")
                            if src:
                                mm = extract_module(imp[0], ast.parse(src), src)
                                query = mm.constants.get(imp[1])
            if fname in ("self.execute", "self.execute_ws"):
                is_sub = fname == "self.execute_ws"
                for kw in n.keywords:
                    if kw.arg == "variables" and isinstance(kw.value, ast.Name):
                        var_local = kw.value.id  # the local holding the variables dict (renamed when an argument clashes)
                    if kw.arg == "operation_name":
                        try:
                            opname = ast.literal_eval(kw.value)
                        except (ValueError, SyntaxError):
                            opname = None
            if isinstance(n.func, ast.Attribute) and n.func.attr == "model_validate":
                model = ast.unparse(n.func.value)
        if isinstance(n, (ast.AnnAssign, ast.Assign)):
            tgt = n.target if isinstance(n, ast.AnnAssign) else n.targets[0]
            if isinstance(tgt, ast.Name) and tgt.id == var_local and n.value is not None:
                var_src = ast.unparse(n.value)
                if isinstance(n.value, ast.Dict):
                    for k, v in zip(n.value.keys, n.value.values):
                        if isinstance(k, ast.Constant):
                            variables[k.value] = ast.unparse(v)
        if isinstance(n, (ast.Return, ast.Yield)) and n.value is not None:
            v = n.value
            if isinstance(v, ast.Attribute) and isinstance(v.value, ast.Call) and isinstance(v.value.func, ast.Attribute) and v.value.func.attr == "model_validate":
                projection = v.attr
    if query is None and model is None:
        return None
    args = []
    a = fn.args
    pos = a.posonlyargs + a.args
    defaults = [None] * (len(pos) - len(a.defaults)) + list(a.defaults)
    for arg, d in zip(pos, defaults):
        if arg.arg == "self":
            continue
        args.append((arg.arg, ast.unparse(arg.annotation) if arg.annotation else "", ast.unparse(d) if d is not None else None))
    for arg, d in zip(a.kwonlyargs, a.kw_defaults):
        args.append((arg.arg, ast.unparse(arg.annotation) if arg.annotation else "", ast.unparse(d) if d is not None else None))
    return MethodInfo(
        name=fn.name, is_async=isinstance(fn, ast.AsyncFunctionDef), args=args,
        query=textwrap.dedent(query) if isinstance(query, str) else None, query_src=qsrc,
        operation_name=opname, variables_src=var_src, variables=variables, model=model, projection=projection,
        returns=ast.unparse(fn.returns) if fn.returns else None, is_subscription=is_sub, body_src=ast.unparse(fn),
    )
