"""Real-code oracles used to confirm solver counterexamples (never to decide a property)."""
from __future__ import annotations

from typing import Any, Dict, List, Optional, Tuple

from graphql import (
    GraphQLEnumType,
    GraphQLInputObjectType,
    GraphQLList,
    GraphQLNonNull,
    GraphQLScalarType,
    Undefined,
    build_schema,
    execute,
    is_abstract_type,
    parse,
)


def json_equal(a, b) -> bool:
    """JSON equality: bool distinct from numbers; 7 == 7.0; key order irrelevant."""
    if isinstance(a, bool) or isinstance(b, bool):
        return isinstance(a, bool) and isinstance(b, bool) and a == b
    if isinstance(a, (int, float)) and isinstance(b, (int, float)):
        return a == b
    if type(a) is not type(b):
        return False
    if isinstance(a, dict):
        return a.keys() == b.keys() and all(json_equal(a[k], b[k]) for k in a)
    if isinstance(a, list):
        return len(a) == len(b) and all(json_equal(x, y) for x, y in zip(a, b))
    return a == b


def synth_value(t, depth=0):
    """some schema-valid value for input type t (used only to satisfy required variables in the oracle run)"""
    if isinstance(t, GraphQLNonNull):
        t = t.of_type
        if isinstance(t, GraphQLList):
            return []
        if isinstance(t, GraphQLEnumType):
            return next(iter(t.values))
        if isinstance(t, GraphQLInputObjectType):
            return {n: synth_value(f.type, depth + 1) for n, f in t.fields.items() if isinstance(f.type, GraphQLNonNull) and f.default_value is Undefined}
        if isinstance(t, GraphQLScalarType):
            return {"Int": 1, "Float": 1.5, "String": "s", "ID": "i", "Boolean": True}.get(t.name, "x")
    return None


def plain(v):
    if isinstance(v, dict) and "__rt" in v:
        return {k: plain(x) for k, x in v["keys"].items()}
    if isinstance(v, list):
        return [plain(x) for x in v]
    return v


def server_can_return(sdl: str, query: str, opname: Optional[str], dirvars: Dict[str, bool], rt_tree) -> Tuple[bool, Any, List[str]]:
    """Execute the *sent* query with graphql-core; resolvers return exactly the payload's values by response key
    and abstract types resolve to the payload's runtime types.  True iff the executor returns the payload."""
    schema = build_schema(sdl)
    doc = parse(query)
    for t in schema.type_map.values():
        if is_abstract_type(t):
            t.resolve_type = lambda value, info, typ: value.get("__rt") if isinstance(value, dict) else None

    def resolver(source, info, **_args):
        if not (isinstance(source, dict) and "__rt" in source):
            raise TypeError("not an object")
        v = source["keys"][info.path.key]
        return unwrap(v)

    def unwrap(v):
        if isinstance(v, dict) and "__rt" in v and v["__rt"] is None:
            return v["keys"]
        return v

    from graphql import OperationDefinitionNode, type_from_ast

    variables: Dict[str, Any] = {}
    for d in doc.definitions:
        if isinstance(d, OperationDefinitionNode) and (opname is None or (d.name and d.name.value == opname)):
            for vd in d.variable_definitions or ():
                name = vd.variable.name.value
                if name in dirvars:
                    variables[name] = dirvars[name]
                elif vd.default_value is None:
                    t = type_from_ast(schema, vd.type)
                    val = synth_value(t)
                    if val is not None:
                        variables[name] = val
    res = execute(schema, doc, root_value=rt_tree, variable_values=variables, operation_name=opname, field_resolver=resolver)
    if hasattr(res, "__await__"):
        raise RuntimeError("unexpected awaitable")
    payload = plain(rt_tree)
    errs = [e.message for e in (res.errors or [])]
    return (res.data is not None and json_equal(res.data, payload)), res.data, errs


# code run inside the child that has the emitted package importable
VALIDATE_CODE = r'''
import importlib, enum
from pydantic import BaseModel

def _cmp(val, raw, path, problems, leaf):
    if isinstance(val, BaseModel):
        if not isinstance(raw, dict):
            problems.append({"path": path, "kind": "model_for_non_object"}); return
        _faith(val, raw, path, problems, leaf); return
    if isinstance(val, list):
        if not isinstance(raw, list) or len(raw) != len(val):
            problems.append({"path": path, "kind": "list_differs"}); return
        for i, (a, b) in enumerate(zip(val, raw)):
            _cmp(a, b, path + [i], problems, leaf)
        return
    leaf.append({"path": path, "type": type(val).__name__, "is_enum": isinstance(val, enum.Enum),
                 "enum_name": val.name if isinstance(val, enum.Enum) else None})
    v = val.value if isinstance(val, enum.Enum) else val
    same = (v == raw) and (isinstance(v, bool) == isinstance(raw, bool))
    if not same:
        problems.append({"path": path, "kind": "value_differs", "got": repr(val), "raw": repr(raw)})

def _faith(obj, payload, path, problems, leaf):
    fields = type(obj).model_fields
    bykey = {}
    for name, fi in fields.items():
        bykey[fi.alias or name] = name
    for k, raw in payload.items():
        if k not in bykey:
            problems.append({"path": path + [k], "kind": "key_not_exposed"}); continue
        _cmp(getattr(obj, bykey[k]), raw, path + [k], problems, leaf)
    dump = obj.model_dump(by_alias=True)
    for k, v in dump.items():
        if k not in payload and v is not None:
            problems.append({"path": path + [k], "kind": "dump_extra_key", "value": repr(v)})

def main(pkg, arg):
    out = []
    for item in arg["items"]:
        mod = importlib.import_module(pkg + "." + item["module"])
        Model = getattr(mod, item["model"])
        r = {"accepted": False}
        try:
            obj = Model.model_validate(item["payload"])
            r["accepted"] = True
            problems, leaf = [], []
            _faith(obj, item["payload"], [], problems, leaf)
            r["problems"] = problems; r["leaf"] = leaf
            r["mro"] = {}
        except Exception as e:
            r["error_type"] = type(e).__name__
            try:
                r["errors"] = [{"loc": [str(x) for x in er["loc"]], "type": er["type"]} for er in e.errors()]
            except Exception:
                r["errors"] = [{"loc": [], "type": str(e)[:200]}]
        out.append(r)
    return out
'''
