"""E-Z input side: symbolic input value tree (OMIT | NULL | value per field), GraphQL input coercion in canonical form
(CoerceOK) vs the emitted pydantic input model (Acc), both as finite-domain z3 formulas."""
from __future__ import annotations

from typing import Dict, List, Optional

import z3
from graphql import (
    GraphQLEnumType,
    GraphQLInputObjectType,
    GraphQLList,
    GraphQLNonNull,
    GraphQLScalarType,
    Undefined,
)

from . import ez


def build_input(ctx: ez.Ctx, typ, path, live, depth: int) -> ez.Node:
    node = ez.Node(ctx, path, typ, live)
    t = typ.of_type if isinstance(typ, GraphQLNonNull) else typ
    if isinstance(t, GraphQLList):
        node.llen = ctx.fresh("len")
        ctx.side.append(z3.And(node.llen >= 0, node.llen <= ctx.L))
        node.elems = []
        for i in range(ctx.L):
            e = build_input(ctx, t.of_type, path + (i,), z3.And(live, node.is_list(), i < node.llen), depth)
            e.parent = node
            node.elems.append(e)
    elif isinstance(t, GraphQLInputObjectType):
        node.rt = z3.IntVal(0)
        node.poss = [t]
        var: Dict[str, tuple] = {}
        if depth <= 0:
            # unrolling bound: deeper nested input objects are outside the explored space
            ctx.side.append(z3.Not(node.is_obj()))
        else:
            for fname, f in t.fields.items():
                p = ctx.fresh("p", "bool")
                sub = build_input(ctx, f.type, path + (fname,), z3.And(live, node.is_obj(), p), depth - 1)
                sub.parent, sub.pvar, sub.fname = node, p, fname
                sub.has_default = f.default_value is not Undefined
                var[fname] = (p, None, sub, f.type, fname)
        node.variants = [var]
    return node


def coerce_ok(ctx: ez.Ctx, node: ez.Node, typ, hole=None):
    """graphql input coercion accepts the value (canonical form: ID as string, enum by name, lists as lists)"""
    if hole is not None and hole.get("node") is node:
        return hole["f"]
    if isinstance(typ, GraphQLNonNull):
        return z3.And(z3.Not(node.is_null()), _coerce_inner(ctx, node, typ.of_type, hole))
    return z3.Or(node.is_null(), _coerce_inner(ctx, node, typ, hole))


def _coerce_inner(ctx, node, t, hole):
    if isinstance(t, GraphQLList):
        return z3.And(node.is_list(), *[z3.Implies(i < node.llen, coerce_ok(ctx, node.elems[i], t.of_type, hole)) for i in range(ctx.L)])
    if isinstance(t, GraphQLEnumType):
        return node.str_in(list(t.values))
    if isinstance(t, GraphQLScalarType):
        tags = ez.leaf_conf_tags(ctx, t)
        if tags is None:
            return z3.Not(node.is_null())
        return node.in_tags(tags)
    if isinstance(t, GraphQLInputObjectType):
        cs = [node.is_obj()]
        for fname, (p, _c, sub, ftype, _fn) in node.variants[0].items():
            required = isinstance(ftype, GraphQLNonNull) and t.fields[fname].default_value is Undefined
            if hole is not None and hole.get("obj") is node and hole["key"] == fname:
                cs.append(z3.Not(p))
                continue
            cs.append(z3.If(p, coerce_ok(ctx, sub, ftype, hole), z3.BoolVal(not required)))
        return z3.And(*cs)
    raise AssertionError(t)


class PydIn(ez.Pyd):
    """input models: same acceptance semantics; optional construction by Python field name (populate_by_name)"""

    def __init__(self, ctx, pol, by_name: bool):
        super().__init__(ctx, pol)
        self.by_name = by_name

    def acc_fields(self, ci, view):
        if self.by_name:
            fields = self.pkg.all_fields(ci)
            view2 = {}
            for f in fields.values():
                if f.key in view:
                    view2[f.name] = view[f.key]
            view = view2
        return super().acc_fields(ci, view)


def to_python_keys(pkg, ci, value):
    """concrete value keyed by GraphQL names -> keyed by the python field names of the emitted input classes"""
    if isinstance(value, list):
        return [to_python_keys(pkg, ci, v) for v in value]
    if isinstance(value, dict) and ci is not None:
        out = {}
        fields = pkg.all_fields(ci)
        bykey = {f.key: f for f in fields.values()}
        for k, v in value.items():
            f = bykey.get(k)
            if f is None:
                out[k] = v
                continue
            sub = None
            import ast

            for n in ast.walk(ez.Pyd.norm(f.ann)):
                nm = n.id if isinstance(n, ast.Name) else (n.value if isinstance(n, ast.Constant) and isinstance(n.value, str) else None)
                if nm:
                    c = pkg.resolve(ci.module, nm)
                    if c is not None and not c.is_enum:
                        sub = c
            out[f.name] = to_python_keys(pkg, sub, v)
        return out
    return value
