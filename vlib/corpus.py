"""Bounded corpus grammars (DESIGN section 2.4): schemas + parametric operation families.

Every candidate operation set is filtered through graphql-core's own validate() (full specified rules minus
NoUnusedFragments, exactly the precondition the generator itself applies), so the corpus only contains valid
inputs and the grammar can over-generate freely.
"""
from __future__ import annotations

import itertools
import random
from typing import Dict, Iterable, List, Optional, Tuple

from graphql import NoUnusedFragmentsRule, build_schema, parse, specified_rules, validate

RULES = [r for r in specified_rules if r is not NoUnusedFragmentsRule]

# ---------------------------------------------------------------------------------------------------
S_ABS = """
schema { query: Query }
type Query {
  node(id: ID): Node
  nodeReq: Node!
  nodes: [Node!]!
  nodesOpt: [Node]
  named: Named
  thing: Thing
  thingReq: Thing!
  things: [Thing]
  thingsReq: [Thing!]!
  user: User!
  me: User
  users: [User!]
  matrix: [[Node!]]
}
interface Node { id: ID! }
interface Named implements Node { id: ID! name: String! }
interface Aged { age: Int }
type User implements Node & Named & Aged { id: ID! name: String! age: Int score: Float active: Boolean! color: Color colors: [Color!]! friends: [User!] bestFriend: User pet: Dog related: Node fav: Thing _tag: String }
type Bot implements Node & Named { id: ID! name: String! model: String! version: Int! }
type Dog implements Node { id: ID! barks: Boolean! owner: User }
union Thing = User | Bot | Dog
enum Color { RED GREEN BLUE }
"""

FRAGS_ABS = {
    "NodeF": "fragment NodeF on Node { id }",
    "NamedF": "fragment NamedF on Named { name }",
    "UserF": "fragment UserF on User { name age }",
    "BotF": "fragment BotF on Bot { model }",
    "DogF": "fragment DogF on Dog { barks }",
    "ThingF": "fragment ThingF on Thing { ... on User { name } ... on Dog { barks } }",
    "NodeInlF": "fragment NodeInlF on Node { id ... on Bot { version } }",
    "UserDeepF": "fragment UserDeepF on User { id bestFriend { ...UserF } pet { barks } }",
    "NestF": "fragment NestF on User { ...UserF color }",
    "ThingUF": "fragment ThingUF on Thing { ... on User { ...UserF } ... on Bot { ...BotF } }",
    "NodeInl2F": "fragment NodeInl2F on Node { id ... on User { ...UserF } }",
    "NamedOnNodeF": "fragment NamedOnNodeF on Node { id }",
    # a three-deep chain of base-class fragments whose names sort top-down (dependants first)
    "AlphaF": "fragment AlphaF on User { ...BetaF }",
    "BetaF": "fragment BetaF on User { ...GammaF age }",
    "GammaF": "fragment GammaF on User { id }",
    # base-class fragments whose sub-fields are of abstract type (the generated nested class needs __typename from the server)
    "RelF": "fragment RelF on User { related { id } }",
    # fragments that get UNPACKED where they are spread (union type condition / spread at another type) and hold an abstract sub-field
    "ThingRelF": "fragment ThingRelF on Thing { ... on User { related { id } fav { ... on Dog { barks } } } }",
    "FavF": "fragment FavF on User { fav { ... on Dog { barks } } name }",
}

# selection items usable inside a selection set whose declared type is abstract (Node / Named / Thing) or User
ITEMS_NODE = [
    "id", "nid: id", "__typename", "... on User { name age }", "... on User { uname: name color }", "... on Bot { model }",
    "... on Dog { barks }", "... on Named { name }", "... on Node { id }", "...NodeF", "...NamedF", "...UserF", "...BotF",
    "...ThingF", "...NodeInlF", "... on User { ...UserF }", "... on User { bestFriend { id } }", "... { id }", "kind: __typename", "...NodeInl2F", "...ThingUF", "... on Aged { age }",
]
ITEMS_THING = [
    "__typename", "... on User { name age }", "... on Bot { model }", "... on Dog { barks }", "... on Named { name }",
    "... on Node { id }", "...NodeF", "...UserF", "...ThingF", "...DogF", "... on User { id fav { __typename } }",
    "... on Dog { owner { name } }", "kind: __typename", "...ThingUF", "...NodeInl2F", "... on Aged { age }",
]
ITEMS_USER = [
    "id", "name", "n2: name", "age", "score", "active", "color", "colors", "__typename", "friends { id }", "bestFriend { name }",
    "pet { barks }", "related { id }", "related { ... on Bot { model } }", "fav { ... on Dog { barks } }", "...UserF", "...NodeF",
    "...NamedF", "...UserDeepF", "...NestF", "... on User { age }", "... on Node { id }", "... on Named { name }", "tn: __typename",
    "pet { kind: __typename barks }", "related { kind: __typename }", "...NodeInl2F", "fav { ...ThingUF }",
]
DIRECTIVES = ["", "@include(if: $v)", "@skip(if: $v)", "@include(if: true)", "@skip(if: $w)"]

TARGETS = [
    ("node", "node(id: \"1\")", ITEMS_NODE), ("nodeReq", "nodeReq", ITEMS_NODE), ("nodes", "nodes", ITEMS_NODE),
    ("nodesOpt", "nodesOpt", ITEMS_NODE), ("named", "named", ITEMS_NODE), ("thing", "thing", ITEMS_THING),
    ("thingReq", "thingReq", ITEMS_THING), ("things", "things", ITEMS_THING), ("thingsReq", "thingsReq", ITEMS_THING),
    ("user", "user", ITEMS_USER), ("me", "me", ITEMS_USER), ("users", "users", ITEMS_USER), ("matrix", "matrix", ITEMS_NODE),
]


# combinations that are always part of the family (not left to sampling): an inline fragment together with a named spread on a
# different implementing type, a spread on the position's own type together with one on a subtype, nested spreads + plain fields
MUST_NODE = [("...RelF",), ("...RelF", "id"), ("id", "... on Bot { model }", "...UserF"), ("... on User { name age }", "...BotF"), ("... on Dog { barks }", "...UserF", "...BotF"),
             ("...NodeF", "...UserF"), ("...NodeF", "... on Bot { model }"), ("...NamedF", "...BotF", "id"), ("...NodeInl2F", "...BotF"),
             ("id", "... on Aged { age }"), ("... on Aged { age }", "... on Bot { model }")]
MUST_THING = [("...ThingRelF",), ("...RelF", "...DogF"), ("... on Bot { model }", "...UserF"), ("... on User { name age }", "...DogF"), ("...ThingUF", "...DogF"), ("... on Named { name }", "...DogF"), ("... on Aged { age }", "...DogF")]
MUST_USER = [("_tag", "_label: name", "_buddy: bestFriend { _tag }"), ("bf: bestFriend { id }", "bf2: bestFriend { name age }"), ("rel1: related { id }", "rel2: related { ... on Bot { model } }", "bestFriend { id }"), ("...RelF",), ("...FavF", "id"), ("...AlphaF",), ("...AlphaF", "name"), ("...UserF", "...NodeF", "id"), ("...UserDeepF", "pet { barks }"), ("...NestF", "...NamedF"), ("related { ... on Bot { model } }", "related { id }")]


def with_directive(item: str, d: str) -> str:
    """attach a directive to a field / inline fragment / spread"""
    if not d:
        return item
    if item.startswith("..."):
        if "{" in item:
            head, rest = item.split("{", 1)
            return f"{head.rstrip()} {d} {{{rest}"
        return f"{item} {d}"
    if "{" in item:
        head, rest = item.split("{", 1)
        return f"{head.rstrip()} {d} {{{rest}"
    return f"{item} {d}"


def used_fragments(text: str, frags: Dict[str, str]) -> List[str]:
    out: List[str] = []
    todo = [n for n in frags if f"...{n}" in text]
    while todo:
        n = todo.pop()
        if n in out:
            continue
        out.append(n)
        todo.extend(m for m in frags if f"...{m}" in frags[n] and m not in out)
    return sorted(out)


def make_operation(name: str, field_text: str, items: List[str]) -> str:
    body = " ".join(items)
    text = f"{{ {field_text} {{ {body} }} }}"
    vars_ = []
    if "$v" in text:
        vars_.append("$v: Boolean!")
    if "$w" in text:
        vars_.append("$w: Boolean = false")
    head = f"query {name}" + (f"({', '.join(vars_)})" if vars_ else "")
    return f"{head} {text}"


def valid_against(schema, text: str) -> bool:
    try:
        doc = parse(text)
    except Exception:  # noqa: BLE001
        return False
    return not validate(schema, doc, RULES)


def abstract_family(max_items: int, per_target: int, seed: int, directives: bool = True) -> List[Tuple[str, str]]:
    """-> list of (operation name, operation text) valid against S_ABS (fragments not included in text)"""
    schema = build_schema(S_ABS)
    rnd = random.Random(seed)
    ops: List[Tuple[str, str]] = []
    n = 0
    all_frags = "\n".join(FRAGS_ABS.values())
    for tname, ftext, items in TARGETS:
        combos: List[Tuple[str, ...]] = []
        for k in range(1, max_items + 1):
            combos.extend(itertools.combinations(items, k))
        rnd.shuffle(combos)
        # always keep all singletons and pairs when they fit, sample the rest
        combos.sort(key=len)
        taken = 0
        must = MUST_NODE if items is ITEMS_NODE else (MUST_THING if items is ITEMS_THING else MUST_USER)
        for mi, combo in enumerate(must):
            if tname in ("matrix", "nodesOpt", "users") and mi % 2:
                continue  # list targets take every other mandatory combination
            text = make_operation(f"Op{n}", ftext, list(combo))
            if valid_against(schema, text + "\n" + all_frags):
                ops.append((f"Op{n}", text))
                n += 1
        for combo in combos:
            if taken >= per_target:
                break
            variants = [list(combo)]
            if directives:
                i = rnd.randrange(len(combo))
                d = rnd.choice(DIRECTIVES[1:])
                variants.append([with_directive(it, d) if j == i else it for j, it in enumerate(combo)])
            for its in variants:
                name = f"Op{n}"
                text = make_operation(name, ftext, its)
                if valid_against(schema, text + "\n" + all_frags):
                    ops.append((name, text))
                    n += 1
                    taken += 1
    return ops


def package_jobs_from_ops(sdl: str, ops: List[Tuple[str, str]], frags: Dict[str, str], per_package: int, config: Optional[dict] = None) -> List[dict]:
    jobs = []
    for i in range(0, len(ops), per_package):
        chunk = ops[i : i + per_package]
        text = "\n".join(t for _, t in chunk)
        fr = used_fragments(text, frags)
        q = text + "\n" + "\n".join(frags[f] for f in fr)
        jobs.append({"schema": sdl, "queries": q, "config": dict(config or {}), "ops": [n for n, _ in chunk]})
    return jobs


# ---------------------------------------------------------------------------------------------------
# W: wrapper stacks over named kinds, as output types
WRAP_BASES = {
    "String": "String", "Int": "Int", "Float": "Float", "Boolean": "Boolean", "ID": "ID", "Enum": "Color",
    "Obj": "Leaf", "Iface": "Shape", "Union": "Either", "Scalar": "Blob",
}


def wrapper_stacks(depth: int) -> List[str]:
    """type-reference templates with `T` as the named type: T, T!, [T], [T]!, [T!], ... up to `depth` list levels"""
    level = ["T", "T!"]
    out = list(level)
    for _ in range(depth):
        level = [f"[{x}]" for x in level] + [f"[{x}]!" for x in level]
        out.extend(level)
    return out


def wrappers_schema(depth: int) -> Tuple[str, List[Tuple[str, str, str]]]:
    """-> (sdl, [(field name, kind, type ref)])"""
    fields = []
    lines = []
    for kind, base in WRAP_BASES.items():
        for i, tpl in enumerate(wrapper_stacks(depth)):
            fname = f"f{kind}{i}"
            ref = tpl.replace("T", base)
            fields.append((fname, kind, ref))
            lines.append(f"  {fname}: {ref}")
    sdl = (
        "type Query {\n" + "\n".join(lines) + "\n}\n"
        "enum Color { RED GREEN }\nscalar Blob\n"
        "type Leaf { a: Int! b: String }\n"
        "interface Shape { area: Float! }\ntype Circle implements Shape { area: Float! r: Float }\ntype Square implements Shape { area: Float! side: Int! }\n"
        "union Either = Leaf | Circle\n"
    )
    return sdl, fields


def wrappers_ops(depth: int, per_op: int = 4) -> Tuple[str, List[Tuple[str, str]]]:
    sdl, fields = wrappers_schema(depth)
    sel = {"Obj": " { a b }", "Iface": " { area ... on Circle { r } }", "Union": " { ... on Leaf { a } ... on Circle { r } }"}
    ops = []
    for i in range(0, len(fields), per_op):
        chunk = fields[i : i + per_op]
        body = " ".join(f"{fn}{sel.get(kind, '')}" for fn, kind, _ in chunk)
        ops.append((f"W{i}", f"query W{i} {{ {body} }}"))
    return sdl, ops


# ---------------------------------------------------------------------------------------------------
# F: fragment graphs (C08 / C10)
FRAG_POOL = {
    "UA": "fragment UA on User { id }",
    "UB": "fragment UB on User { name ...UA }",
    "UC": "fragment UC on User { age ...UB }",
    "UD": "fragment UD on User { ...UA ...UB }",
    "UE": "fragment UE on User { ...UA color }",
    "NA": "fragment NA on Node { id }",
    "NB": "fragment NB on Node { ...NA }",
    "MA": "fragment MA on Named { name }",
    "TA": "fragment TA on Thing { ... on User { name } }",
    "UI": "fragment UI on User { id ... on User { age } }",
    "BA": "fragment BA on Bot { model }",
    "UF": "fragment UF on User { bestFriend { ...UA } pet { barks } }",
    "Aaa": "fragment Aaa on User { ...UE ...UF }",
    "ZU": "fragment ZU on User { score }",
    "AF": "fragment AF on User { bestFriend { ...UB } }",
    "AG": "fragment AG on User { friends { ...ZU pet { ...ZD } } }",
    "ZD": "fragment ZD on Dog { barks }",
    "UN": "fragment UN on User { ...NA name }",
    "UM": "fragment UM on User { age ...MA ...TA }",
}
FRAG_OPS = [
    "user { ...UA }", "user { ...UB }", "me { ...UC }", "user { ...UD }", "users { ...UE }", "node { ...NA }", "node { ...NB }",
    "node { ...UA }", "user { ...NA }", "named { ...MA ...NA }", "things { ...TA }", "user { ...UI }", "node { ...BA }", "user { ...UF }",
    "user { ...Aaa }", "user { bestFriend { ...UA } friends { ...UB } }", "user { id ...UA name }", "nodes { ...NA ... on User { ...UA } }",
    "me { ...ZU ...UA }", "thing { ... on User { ...UE } }", "user { ...UA @include(if: true) }", "user { ...AF }", "me { ...AG }", "users { ...AF ...AG }",
    "node { id ... on Bot { model } ...UE }", "nodesOpt { ... on Dog { barks } ...UB }", "thing { ... on Bot { model } ...UC }", "named { ... on Bot { model } ...UE ...MA }",
    "user { ... on Node { ...NA } }", "me { name ... on Named { ...MA } ... on User { ...ZU } }", "node { ... on Node { ...NA } ... on User { ...UB } }",
    "named { ...NA name }", "named { id ...NB }",
    "user { ...UA ...UF }", "me { ...AF ...UB name }", "users { ...ZU ...AG }",
    "user { ...UN }", "me { id ...UN }", "users { ...UM }", "node { ... on User { ...UN } }",
]


def fragment_packages(n_packages: int, ops_per_package: int, seed: int, avoid: Tuple[str, ...] = ()) -> List[dict]:
    schema = build_schema(S_ABS)
    rnd = random.Random(seed)
    jobs = []
    pool = [o for o in FRAG_OPS if not any(a in o for a in avoid)]
    for pi in range(n_packages):
        chosen = rnd.sample(pool, min(ops_per_package, len(pool)))
        ops = [f"query F{pi}x{i} {{ {o} }}" for i, o in enumerate(chosen)]
        text = "\n".join(ops)
        frs = used_fragments(text, FRAG_POOL)
        extra = [f for f in FRAG_POOL if f not in frs and not any(a in FRAG_POOL[f] or a == f for a in avoid)]
        if extra and rnd.random() < 0.5:
            frs.append(rnd.choice(extra))  # an unused fragment
            frs = sorted(set(frs + used_fragments(FRAG_POOL[frs[-1]], FRAG_POOL)))
        defs = ops + [FRAG_POOL[f] for f in frs]
        rnd.shuffle(defs)  # definition order in the queries file
        q = "\n".join(defs)
        if validate(schema, parse(q), RULES):
            continue
        jobs.append({"schema": S_ABS, "queries": q, "config": {"convert_to_snake_case": bool(pi % 2)}, "ops": [f"F{pi}x{i}" for i in range(len(chosen))]})
    return jobs


# ---------------------------------------------------------------------------------------------------
# I x W: input object types (C06 / C03)
IN_BASES = {"String": "String", "Int": "Int", "Float": "Float", "Boolean": "Boolean", "ID": "ID", "Enum": "Color", "In": "Leaf", "Scalar": "Blob"}


def inputs_schema(depth: int) -> str:
    lines = []
    for kind, base in IN_BASES.items():
        fl = []
        for i, tpl in enumerate(wrapper_stacks(depth)):
            fl.append(f"  w{i}: {tpl.replace('T', base)}")
        lines.append(f"input W{kind} {{\n" + "\n".join(fl) + "\n}")
    return (
        "type Query { ping(a: WString, b: WInt, c: WFloat, d: WBoolean, e: WID, f: WEnum, g: WIn, h: WScalar, n: Names, r: Rec, d2: Defs, bi: Builtins): Int }\n"
        "enum Color { RED GREEN in }\nscalar Blob\n"
        "input Leaf { a: Int!, b: String, c: Color }\n"
        "input Rec { v: Int, next: Rec, many: [Rec!], leaf: Leaf! }\n"
        "input Names { camelCase: Int, in: String, _under: Int, copy: Boolean, json: Int!, model_config: String, Upper: Int, x1y: Int, class: Color, _req: ID!, _lead_list: [Int!]!, modelDump: Int, modelFields: String, _construct: Int }\n"
        "input Builtins { str: String, s2: String, int: Int, i2: Int!, float: Float, f2: [Float], bool: Boolean, b2: Boolean, list: [String], l2: [String!], id: ID, id2: ID }\n"
        "input Defs { i: Int = 3, ni: Int! = 4, s: String = \"x\", b: Boolean = true, f: Float = 1.5, e: Color = GREEN, ne: Color! = RED, l: [Int!] = [1, 2], n: Int = null,\n"
        "  o: Leaf = {a: 1}, req: Int!, lo: [Int] = [1, null] }\n"
        + "\n".join(lines) + "\n"
    )


def inputs_scalar_schema(depth: int) -> Tuple[str, dict, dict]:
    """input types over *configured* custom scalars (with / without serialize): -> (sdl, scalars config, value domains)"""
    lines = []
    for kind, base in (("Stamp", "Stamp"), ("Hex", "Hex")):
        fl = [f"  w{i}: {tpl.replace('T', base)}" for i, tpl in enumerate(wrapper_stacks(depth))]
        lines.append(f"input W{kind} {{\n" + "\n".join(fl) + "\n}")
    sdl = ("type Query { ping(a: WStamp, b: WHex, m: MixS): Int }\nscalar Stamp\nscalar Hex\n"
           "input MixS { s: Stamp, rs: Stamp!, h: Hex, rh: Hex!, ls: [Stamp], lh: [Hex!], inner: MixS, ds: Stamp = \"d\" }\n" + "\n".join(lines) + "\n")
    scalars = {"Stamp": {"type": "str", "serialize": "json.dumps"}, "Hex": {"type": "int"}}
    return sdl, scalars, {"Stamp": "str", "Hex": "int"}


# ---------------------------------------------------------------------------------------------------
# M: roots other than Query, configured custom scalars, three levels of abstract nesting, enum lists
S_MISC = """
schema { query: RootQ mutation: RootM subscription: RootS }
type RootQ { feed(first: Int): [Entry!]! entry(id: ID!): Entry search: [Hit] }
type RootM { publish(id: ID!): Entry! remove(id: ID!): Outcome }
type RootS { changes: Entry! pulses: [Int!] }
interface Entry { id: ID! at: Stamp tags: [Tag!] }
type Post implements Entry { id: ID! at: Stamp tags: [Tag!] title: String! author: Author! related: [Entry] }
type Note implements Entry { id: ID! at: Stamp tags: [Tag!] text: String pinnedBy: Author }
union Hit = Post | Note | Author
type Author { handle: String! posts: [Post!]! last: Entry stamps: [Stamp]! matrix: [[Tag]] }
union Outcome = Removed | Refused
type Removed { id: ID! }
type Refused { reason: String! code: Int }
enum Tag { A B }
scalar Stamp
"""
OPS_MISC = """
query Feed($n: Int) { feed(first: $n) { id at tags ... on Post { title author { handle last { id ... on Note { text pinnedBy { handle } } } } } ... on Note { text } } }
query GetEntry($id: ID!) { entry(id: $id) { __typename id ... on Post { related { id ... on Post { author { stamps matrix } } } } } }
query Search { search { ... on Author { handle posts { title tags } } ... on Entry { id } ... on Note { pinnedBy { last { id } } } } }
mutation Publish($id: ID!) { publish(id: $id) { id at ...EntryF } }
mutation Remove($id: ID!) { remove(id: $id) { ... on Removed { id } ... on Refused { reason code } } }
subscription Changes { changes { id ... on Post { title } } }
subscription Pulses { pulses }
fragment EntryF on Entry { tags ... on Note { text } }
"""


OPS_MISC_SCALAR = """
query PostAt { feed { ...EntryAt } }
query Authors { search { ... on Author { ...AuthorStamps } ... on Post { author { ...AuthorStamps } } } }
query Direct { entry(id: "1") { at ... on Post { author { stamps } } } }
fragment EntryAt on Entry { at id }
fragment AuthorStamps on Author { stamps handle }
"""


def misc_jobs() -> List[dict]:
    out = []
    for snake in (True, False):
        out.append({"schema": S_MISC, "queries": OPS_MISC, "config": {"convert_to_snake_case": snake}, "ops": None})
    # the other client flavours (the models do not depend on them, the generated methods - sent document, validated class - do)
    ops_no_sub = "\n".join(ln for ln in OPS_MISC.strip().split("\n") if not ln.startswith("subscription"))
    out.append({"schema": S_MISC, "queries": ops_no_sub, "config": {"async_client": False}, "ops": None})
    out.append({"schema": S_MISC, "queries": OPS_MISC, "config": {"opentelemetry_client": True}, "ops": None})
    out.append({"schema": S_MISC, "queries": ops_no_sub, "config": {"async_client": False, "opentelemetry_client": True, "convert_to_snake_case": False}, "ops": None})
    # a configured custom scalar reached directly and through base-class fragments: only its declared Python type is judged
    # (what a server may send for a custom scalar is not defined by the schema), hence this job is used by C05 only
    out.append({"schema": S_MISC, "queries": OPS_MISC_SCALAR, "config": {"scalars": {"Stamp": {"type": "str"}}}, "ops": None, "only_for": "C05", "modes_override": ["image"]})
    return out
