import json
from typing import List
from ariadne_codegen.client_generators.dependencies import async_base_client as abc_mod
from ariadne_codegen.client_generators.dependencies.async_base_client import AsyncBaseClient
from ariadne_codegen.client_generators.dependencies import exceptions as X

FRAMES = [
    '{"type": "connection_ack"}',
    '{"type": "next", "id": "1", "payload": {"data": {"a": 1}}}',
    '{"type": "ping"}',
    '{"type": "pong"}',
    '{"type": "complete", "id": "1"}',
    '{"type": "error", "id": "1", "payload": [{"message": "boom"}]}',
    'not json',
    '{"type": "bogus"}',
    '{"id": "1"}',
    '{"type": "next", "id": "1", "payload": {}}',
]

class LazyFrames:
    def __init__(self, kinds): self.kinds = kinds; self.i = 0
    def __bool__(self): return True if self.i < len(self.kinds) else False
    def pop(self, _):
        k = self.kinds[self.i]; self.i += 1
        return FRAMES[k]
class FakeWS:
    def __init__(self, frames):
        self.frames = frames; self.sent = []; self.closed = False
    async def send(self, m): self.sent.append(json.loads(m))
    async def recv(self):
        if not self.frames: raise RuntimeError("eof")
        return self.frames.pop(0)
    async def close(self): self.closed = True
    def __aiter__(self): return self
    async def __anext__(self):
        if self.closed or not self.frames: raise StopAsyncIteration
        return self.frames.pop(0)

class FakeConnect:
    def __init__(self, ws, rec): self.ws = ws; self.rec = rec
    def __call__(self, url, **kw):
        self.rec.append((url, kw)); return self
    async def __aenter__(self): return self.ws
    async def __aexit__(self, *a): return False

def drive(agen):
    out = []
    while True:
        co = agen.__anext__()
        try:
            co.send(None)
            raise AssertionError("suspended")
        except StopIteration as s:
            out.append(s.value)
        except StopAsyncIteration:
            return out, None
        except X.GraphQLClientError as e:
            return out, type(e).__name__

def spec(kinds):
    sent = [{"type": "connection_init"}]
    out = []
    if not kinds: return None
    if kinds[0] in (6,): return sent, out, "GraphQLClientInvalidMessageFormat"
    if kinds[0] != 0: return sent, out, "GraphQLClientInvalidMessageFormat"
    sent.append("subscribe")
    for k in kinds[1:]:
        if k == 1: out.append({"a": 1})
        elif k == 2: sent.append({"type": "pong"})
        elif k == 4: return sent, out, None
        elif k == 5: return sent, out, "GraphQLClientGraphQLMultiError"
        elif k in (6, 7, 8, 9): return sent, out, "GraphQLClientInvalidMessageFormat"
    return sent, out, None

def check(k0: int, k1: int, k2: int, k3: int, n: int) -> bool:
    """
    pre: 1 <= n <= 4
    pre: 0 <= k0 <= 9 and 0 <= k1 <= 9 and 0 <= k2 <= 9 and 0 <= k3 <= 9
    post: _
    """
    kinds = [k0, k1, k2, k3][:n]
    ws = FakeWS(LazyFrames(kinds)); rec = []
    old = abc_mod.ws_connect
    abc_mod.ws_connect = FakeConnect(ws, rec)
    try:
        c = AsyncBaseClient.__new__(AsyncBaseClient)
        c.ws_url = "ws://x"; c.ws_headers = {}; c.ws_origin = None; c.ws_connection_init_payload = None
        out, err = drive(c.execute_ws("query Q { a }", "Q", {"v": 1}))
    finally:
        abc_mod.ws_connect = old
    s_sent, s_out, s_err = spec(kinds[:ws.frames.i])
    sent = [m if m.get("type") != "subscribe" else "subscribe" for m in ws.sent]
    return sent == s_sent and out == s_out and err == s_err
