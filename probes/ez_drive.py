import ast, sys, time, json, importlib, textwrap
import z3
from graphql import build_ast_schema, parse
from extract import extract_package
from sem import *

PKG_DIR = sys.argv[1]; PKG = sys.argv[2]; SDL = sys.argv[3]
sys.path.insert(0, PKG_DIR.rsplit("/", 1)[0])
schema = build_ast_schema(parse(open(SDL).read()))
classes = extract_package(PKG_DIR)

def methods(client_path):
    tree = ast.parse(open(client_path).read())
    out = []
    for cls in [n for n in tree.body if isinstance(n, ast.ClassDef)]:
        for fn in cls.body:
            if not isinstance(fn, (ast.FunctionDef, ast.AsyncFunctionDef)): continue
            q = None; model = None
            for n in ast.walk(fn):
                if isinstance(n, ast.Call) and ast.unparse(n.func) == "gql": q = ast.literal_eval(n.args[0])
                if isinstance(n, ast.Call) and isinstance(n.func, ast.Attribute) and n.func.attr == "model_validate": model = ast.unparse(n.func.value)
            if q: out.append((fn.name, textwrap.dedent(q), model))
    return out

tot = 0
for name, q, model in methods(PKG_DIR + "/client.py"):
    doc = parse(q)
    ctx = Ctx(schema, doc, classes)
    r = root(ctx)
    C = conf(ctx, r, r.expect); A = acc_class(ctx, model, r)
    mod = importlib.import_module(f"{PKG}.{name}")
    Model = getattr(mod, model)
    for label, f in (("Q1 conf&!acc", z3.And(C, z3.Not(A))), ("Q5 acc&!conf", z3.And(A, z3.Not(C)))):
        s = z3.Solver(); s.add(*ctx.side); s.add(f)
        t0 = time.time(); known = 0
        while True:
            res = s.check()
            if res != z3.sat: break
            m = s.model(); payload = concretize(ctx, m, r)
            # known lax class: BOOL where Int/Float expected -> exclude and continue
            lax = [n for n in ctx.nodes if n.expect is not None and getattr(getattr(n.expect, "of_type", n.expect), "name", "") in ("Int", "Float") and m.eval(n.kind, model_completion=True).as_long() == BOOL]
            if label.startswith("Q5") and lax:
                known += 1
                s.add(z3.And(*[n.kind != BOOL for n in ctx.nodes if n.expect is not None and getattr(getattr(n.expect, "of_type", n.expect), "name", "") in ("Int", "Float")]))
                continue
            break
        dt = time.time() - t0; tot += dt
        line = f"{name:10s} {label:14s} {res} {dt:.2f}s nodes={len(ctx.nodes)} known_lax={known}"
        if res == z3.sat:
            try:
                Model.model_validate(payload); real = "ACCEPT"
            except Exception as e: real = "REJECT"
            line += f"\n    payload={json.dumps(payload)}\n    real pydantic: {real}  vars={ {k: z3.is_true(m.eval(v, model_completion=True)) for k, v in ctx.dirvars.items()} }"
        print(line)
print("total solver", tot)
