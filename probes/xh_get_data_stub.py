from typing import Any, Dict, List, Optional, Union
import httpx
from ariadne_codegen.client_generators.dependencies.base_client import BaseClient
from ariadne_codegen.client_generators.dependencies import exceptions as X

class StubResponse:
    def __init__(self, status_code: int, json_ok: bool, body: Any):
        self.status_code = status_code
        self._json_ok = json_ok
        self._body = body
    @property
    def is_success(self) -> bool:
        return httpx.codes.is_success(self.status_code)
    def json(self):
        if not self._json_ok:
            raise ValueError("bad json")
        return self._body

_client = BaseClient.__new__(BaseClient)

Err = Dict[str, Union[str, int, None]]
Body = Union[None, int, str, List[int], Dict[str, Union[None, int, Dict[str,int], List[Err]]]]

def spec(status: int, json_ok: bool, body):
    if not (200 <= status <= 299): return ("http", status)
    if not json_ok: return ("invalid",)
    if not isinstance(body, dict) or ("data" not in body and "errors" not in body): return ("invalid",)
    errs = body.get("errors")
    if errs: return ("multi", len(errs), body.get("data"))
    return ("data", body.get("data"))

def _errors_wellformed(body) -> bool:
    if isinstance(body, dict) and "errors" in body:
        e = body["errors"]
        if e is None: return True
        if not isinstance(e, list): return False
        return all(isinstance(x, dict) and isinstance(x.get("message"), str) for x in e)
    return True

def check_get_data(status: int, json_ok: bool, body: Body):
    """
    pre: 100 <= status <= 599
    pre: _errors_wellformed(body)
    post: _ == spec(status, json_ok, body)
    """
    try:
        d = _client.get_data(StubResponse(status, json_ok, body))
        return ("data", d)
    except X.GraphQLClientHttpError as e:
        return ("http", e.status_code)
    except X.GraphQLClientInvalidResponseError:
        return ("invalid",)
    except X.GraphQLClientGraphQLMultiError as e:
        return ("multi", len(e.errors), e.data)
