"""Bounded symbolic regex findall -> z3 (prototype)."""
import re, re._parser as sp, re._constants as sc
import z3

class BStr:
    """bounded string: chars[i] z3 Int (0 = padding), n z3 Int length, cap concrete max length"""
    def __init__(self, chars, n):
        self.chars = chars; self.n = n; self.cap = len(chars)

def is_upper(c): return z3.And(c >= 65, c <= 90)
def is_lower(c): return z3.And(c >= 97, c <= 122)
def is_digit(c): return z3.And(c >= 48, c <= 57)
def is_word(c): return z3.Or(is_upper(c), is_lower(c), is_digit(c), c == 95)

def cls_cond(items, c):
    neg = False; conds = []
    for op, av in items:
        if op is sc.NEGATE: neg = True
        elif op is sc.LITERAL: conds.append(c == av)
        elif op is sc.RANGE: conds.append(z3.And(c >= av[0], c <= av[1]))
        elif op is sc.CATEGORY:
            conds.append({sc.CATEGORY_DIGIT: is_digit(c), sc.CATEGORY_NOT_DIGIT: z3.Not(is_digit(c)),
                          sc.CATEGORY_WORD: is_word(c), sc.CATEGORY_NOT_WORD: z3.Not(is_word(c))}[av])
        else: raise NotImplementedError(op)
    r = z3.Or(*conds) if conds else z3.BoolVal(False)
    return z3.Not(r) if neg else r

def m(seq, idx, s, pos, cond, k):
    """match seq[idx:] at concrete pos under cond; call k(pos, cond) for each way, in priority order"""
    if idx == len(seq): k(pos, cond); return
    op, av = seq[idx]
    rest = lambda p, c: m(seq, idx + 1, s, p, c, k)
    def char(pred):
        if pos < s.cap: rest(pos + 1, z3.And(cond, pos < s.n, pred(s.chars[pos])))
    if op is sc.LITERAL: char(lambda c: c == av)
    elif op is sc.NOT_LITERAL: char(lambda c: c != av)
    elif op is sc.IN: char(lambda c: cls_cond(av, c))
    elif op is sc.ANY: char(lambda c: c != 10)
    elif op is sc.CATEGORY: char(lambda c: cls_cond([(op, av)], c))
    elif op is sc.SUBPATTERN: m(list(av[3]) + seq[idx+1:], 0, s, pos, cond, k)
    elif op is sc.BRANCH:
        for alt in av[1]: m(list(alt) + seq[idx+1:], 0, s, pos, cond, k)
    elif op is sc.AT:
        if av is sc.AT_END or av is sc.AT_END_STRING: rest(pos, z3.And(cond, s.n == pos))
        elif av is sc.AT_BEGINNING or av is sc.AT_BEGINNING_STRING:
            if pos == 0: rest(pos, cond)
        else: raise NotImplementedError(av)
    elif op is sc.ASSERT:
        direction, sub = av
        assert direction == 1
        alts = []
        m(list(sub), 0, s, pos, z3.BoolVal(True), lambda p, c: alts.append(c))
        rest(pos, z3.And(cond, z3.Or(*alts) if alts else z3.BoolVal(False)))
    elif op is sc.ASSERT_NOT:
        direction, sub = av
        assert direction == 1
        alts = []
        m(list(sub), 0, s, pos, z3.BoolVal(True), lambda p, c: alts.append(c))
        rest(pos, z3.And(cond, z3.Not(z3.Or(*alts)) if alts else z3.BoolVal(True)))
    elif op is sc.MAX_REPEAT or op is sc.MIN_REPEAT:
        lo, hi, sub = av
        sub = list(sub)
        greedy = op is sc.MAX_REPEAT
        def rep(count, p, c):
            def more():
                if (hi is sc.MAXREPEAT or count < hi) and p < s.cap:
                    def after(p2, c2):
                        if p2 > p: rep(count + 1, p2, c2)
                    m(sub, 0, s, p, c, after)
            def stop():
                if count >= lo: rest(p, c)
            if greedy: more(); stop()
            else: stop(); more()
        rep(0, pos, cond)
    else:
        raise NotImplementedError(op)

def candidates(pattern, s, pos):
    out = []
    m(list(sp.parse(pattern)), 0, s, pos, z3.BoolVal(True), lambda p, c: out.append((p, z3.simplify(c))))
    return out

def findall_tokens(pattern, s):
    """returns tok[i][j] Bool: findall yields s[i:j]; at[i]: scanner visits i"""
    N = s.cap
    at = [z3.BoolVal(i == 0) for i in range(N + 2)]
    tok = {}
    for i in range(N + 1):
        cands = candidates(pattern, s, i)
        prev_none = z3.BoolVal(True)
        for (e, c) in cands:
            chosen = z3.And(at[i], i <= s.n, prev_none, c)
            prev_none = z3.And(prev_none, z3.Not(c))
            if e > i:
                tok[(i, e)] = z3.Or(tok.get((i, e), z3.BoolVal(False)), chosen)
                at[e] = z3.Or(at[e], chosen)
            else:  # empty match: emits '' and advances by one
                tok[(i, i)] = z3.Or(tok.get((i, i), z3.BoolVal(False)), chosen)
                at[i + 1] = z3.Or(at[i + 1], chosen)
        at[i + 1] = z3.Or(at[i + 1], z3.And(at[i], i < s.n, prev_none))
    return tok, at
