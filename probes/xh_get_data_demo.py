from typing import Any, Dict, List, Optional, Union
import httpx
from ariadne_codegen.client_generators.dependencies.base_client import BaseClient
from ariadne_codegen.client_generators.dependencies import exceptions as X
from h2 import StubResponse, spec

_client = BaseClient.__new__(BaseClient)

def build_body(kind: int, has_data: bool, data_kind: int, has_errors: bool, n_err: int, extra: bool, msg: str):
    if kind == 0: return None
    if kind == 1: return 7
    if kind == 2: return "s"
    if kind == 3: return [1]
    body = {}
    if has_data:
        body["data"] = None if data_kind == 0 else ({} if data_kind == 1 else {"a": 1})
    if has_errors:
        if n_err < 0: body["errors"] = None
        else: body["errors"] = [{"message": msg, "path": ["a"]} for _ in range(n_err)]
    if extra: body["extensions"] = {"x": 1}
    return body

def check_get_data(status: int, json_ok: bool, kind: int, has_data: bool, data_kind: int, has_errors: bool, n_err: int, extra: bool, msg: str):
    """
    pre: 100 <= status <= 599
    pre: 0 <= kind <= 4 and 0 <= data_kind <= 2 and -1 <= n_err <= 2
    post: _[0] == _[1]
    """
    body = build_body(kind, has_data, data_kind, has_errors, n_err, extra, msg)
    try:
        d = _client.get_data(StubResponse(status, json_ok, body))
        r = ("data", d)
    except X.GraphQLClientHttpError as e:
        r = ("http", e.status_code)
    except X.GraphQLClientInvalidResponseError:
        r = ("invalid",)
    except X.GraphQLClientGraphQLMultiError as e:
        r = ("multi", len(e.errors), e.data)
    return (r, spec(status, json_ok, body))
