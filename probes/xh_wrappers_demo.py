import ast
from graphql import build_ast_schema, parse, GraphQLNonNull, GraphQLList, GraphQLString, GraphQLInt, GraphQLObjectType, GraphQLField, FieldNode, NameNode
from ariadne_codegen.client_generators.result_fields import parse_operation_field

def build_type(w0: int, w1: int, w2: int, base: int):
    t = [GraphQLString, GraphQLInt][base]
    for w in (w0, w1, w2):
        if w == 1:
            if isinstance(t, GraphQLNonNull): return None
            t = GraphQLNonNull(t)
        elif w == 2:
            t = GraphQLList(t)
    return t

def spec(t, nullable=True):
    if isinstance(t, GraphQLNonNull): return spec(t.of_type, False)
    if isinstance(t, GraphQLList):
        s = "List[" + spec(t.of_type, True) + "]"
    else:
        s = {"String": "str", "Int": "int"}[t.name]
    return "Optional[" + s + "]" if nullable else s

def check(w0: int, w1: int, w2: int, base: int, skip: bool):
    """
    pre: 0 <= w0 <= 2 and 0 <= w1 <= 2 and 0 <= w2 <= 2 and 0 <= base <= 1
    post: _
    """
    t = build_type(w0, w1, w2, base)
    if t is None: return True
    from graphql import DirectiveNode
    dirs = (DirectiveNode(name=NameNode(value="skip"), arguments=()),) if skip else ()
    ann, default, ctx = parse_operation_field(schema=None, field=FieldNode(name=NameNode(value="f"), directives=dirs), type_=t, directives=dirs)
    got = ast.unparse(ann)
    exp = spec(t)
    if skip and not exp.startswith("Optional["): exp = "Optional[" + exp + "]"
    return got == exp and ((default is not None) == skip)
