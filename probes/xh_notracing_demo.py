from h9 import run
from crosshair.tracers import NoTracing
from crosshair.core import realize
def pick(v, n):
    for k in range(n - 1):
        if v == k: return k
    return n - 1
def check(a: int, b: int, c: int, snake: bool) -> bool:
    """
    post: _
    """
    ka = pick(a, 5); kb = pick(b, 5)
    kc = pick(c, 4) if ka == 0 else 0   # lazy consumption
    s = True if snake else False
    with NoTracing():
        r = run(s)
        ok = len(r) > 0 and (ka, kb, kc) != (9, 9, 9)
    return ok
