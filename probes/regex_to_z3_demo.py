import z3, itertools, random, re, time
from rx import *
PAT = r"[A-Z]?[a-z]+|[A-Z]+(?=[A-Z][a-z]|\d|\W|_|$)|\d+"
N = 8
chars = [z3.Int(f"c{i}") for i in range(N)]
n = z3.Int("n")
s = BStr(chars, n)
t0 = time.time()
tok, at = findall_tokens(PAT, s)
print("encode", time.time() - t0, len(tok))
# validate the encoding on concrete strings
def concrete_tokens(x):
    return [(mm.start(), mm.end()) for mm in re.finditer(PAT, x)]
sol = z3.Solver()
alphabet = "abzABZ019_"
random.seed(1)
bad = 0
tests = ["", "a", "A", "AB", "ABc", "aB", "a1", "A1b", "_a_", "HTTPServ", "getURL2", "a_B", "ABC_DEF", "aBC"] + ["".join(random.choice(alphabet) for _ in range(random.randint(0, N))) for _ in range(300)]
for x in tests:
    sol.push()
    sol.add(n == len(x))
    for i, ch in enumerate(x): sol.add(chars[i] == ord(ch))
    for i in range(len(x), N): sol.add(chars[i] == 0)
    assert sol.check() == z3.sat
    mdl = sol.model()
    got = sorted(k for k, v in tok.items() if z3.is_true(mdl.eval(v, model_completion=True)))
    exp = concrete_tokens(x)
    if got != exp: bad += 1; print("MISMATCH", repr(x), got, exp)
    sol.pop()
print("validated", len(tests), "bad", bad)
# property: every letter/digit position covered by exactly one token, underscores never covered (GraphQL names)
def gql_name(s):
    cs = [z3.Or(i >= s.n, is_word(s.chars[i])) for i in range(s.cap)] + [z3.Or(i < s.n, s.chars[i] == 0) for i in range(s.cap)]
    return z3.And(s.n >= 1, s.n <= s.cap, z3.Not(is_digit(s.chars[0])), *cs)
cov = []
for p in range(N):
    cov.append(z3.Sum([z3.If(v, 1, 0) for (i, j), v in tok.items() if i <= p < j]))
viol = z3.Or(*[z3.And(p < n, z3.If(chars[p] == 95, cov[p] != 0, cov[p] != 1)) for p in range(N)])
sol = z3.Solver(); sol.add(gql_name(s)); sol.add(viol)
t0 = time.time(); r = sol.check(); print("coverage property:", r, time.time() - t0)
if r == z3.sat:
    mdl = sol.model(); L = mdl.eval(n).as_long(); print("".join(chr(mdl.eval(chars[i]).as_long()) for i in range(L)))
