"""E-Z prototype: symbolic response skeleton, GraphQL conformance, pydantic acceptance."""
import ast, itertools
import z3
from graphql import (GraphQLSchema, GraphQLNonNull, GraphQLList, GraphQLScalarType, GraphQLEnumType, GraphQLObjectType,
                     GraphQLInterfaceType, GraphQLUnionType, is_abstract_type, is_composite_type, FieldNode,
                     FragmentSpreadNode, InlineFragmentNode, parse, OperationDefinitionNode, FragmentDefinitionNode, VariableNode, BooleanValueNode)
from extract import all_fields

NULL, BOOL, INT, FLOAT, STR, LIST, OBJ = range(7)
KNAMES = ["null", "bool", "int", "float", "str", "list", "obj"]
L = 2

class Ctx:
    def __init__(self, schema: GraphQLSchema, doc, classes):
        self.schema = schema; self.classes = classes
        self.frags = {d.name.value: d for d in doc.definitions if isinstance(d, FragmentDefinitionNode)}
        self.op = [d for d in doc.definitions if isinstance(d, OperationDefinitionNode)][0]
        strs = ["abc", "Bogus"]
        for n, t in schema.type_map.items():
            if n.startswith("__"): continue
            strs.append(n)
            if isinstance(t, GraphQLEnumType): strs.extend(t.values.keys())
        self.strs = list(dict.fromkeys(strs)); self.sidx = {s: i for i, s in enumerate(self.strs)}
        self.n = 0; self.side = []      # domain constraints
        self.dirvars = {}
        self.nodes = []
    def fresh(self, pfx, sort="int"):
        self.n += 1
        return z3.Int(f"{pfx}_{self.n}") if sort == "int" else z3.Bool(f"{pfx}_{self.n}")
    def dirvar(self, name):
        if name not in self.dirvars: self.dirvars[name] = z3.Bool("var_" + name)
        return self.dirvars[name]

class Node:
    def __init__(self, ctx, path):
        self.path = path
        self.kind = ctx.fresh("k"); ctx.side.append(z3.And(self.kind >= 0, self.kind <= 6))
        self.sval = ctx.fresh("s"); ctx.side.append(z3.And(self.sval >= 0, self.sval < len(ctx.strs)))
        self.llen = None; self.elems = None; self.variants = None; self.rt = None
        self.nonempty = ctx.fresh("ne", "bool")   # for opaque list/obj
        self.expect = None
        ctx.nodes.append(self)

def directive_cond(ctx, directives):
    c = []
    for d in directives or ():
        if d.name.value in ("skip", "include"):
            v = d.arguments[0].value
            b = ctx.dirvar(v.name.value) if isinstance(v, VariableNode) else z3.BoolVal(v.value)
            c.append(z3.Not(b) if d.name.value == "skip" else b)
    return z3.And(*c) if c else z3.BoolVal(True)

def collect(ctx, rt: GraphQLObjectType, sels, out=None, cond=None, visited=None):
    """sels: list of (cond, selection_set). returns dict key -> list of (cond, FieldNode)"""
    out = {} if out is None else out
    visited = set() if visited is None else visited
    for c0, ss in sels:
        for s in ss.selections:
            c = z3.And(c0, directive_cond(ctx, s.directives))
            if isinstance(s, FieldNode):
                key = s.alias.value if s.alias else s.name.value
                out.setdefault(key, []).append((c, s))
            else:
                if isinstance(s, FragmentSpreadNode):
                    # NOTE: spec's visitedFragments makes first occurrence win; with conditions we or them: approximation noted
                    fd = ctx.frags[s.name.value]; tc = fd.type_condition.name.value; sub = fd.selection_set
                else:
                    tc = s.type_condition.name.value if s.type_condition else None; sub = s.selection_set
                if tc is not None:
                    t = ctx.schema.type_map[tc]
                    applies = (t is rt) or (is_abstract_type(t) and ctx.schema.is_sub_type(t, rt))
                    if not applies: continue
                collect(ctx, rt, [(c, sub)], out, None, visited)
    return out

def build(ctx, typ, entries, path):
    """entries: list of (cond, FieldNode) merged under this response key"""
    node = Node(ctx, path)
    t = typ.of_type if isinstance(typ, GraphQLNonNull) else typ
    node.expect = typ
    if isinstance(t, GraphQLList):
        node.llen = ctx.fresh("len"); ctx.side.append(z3.And(node.llen >= 0, node.llen <= L))
        node.elems = [build(ctx, t.of_type, entries, path + (i,)) for i in range(L)]
    elif is_composite_type(t):
        poss = list(ctx.schema.get_possible_types(t)) if is_abstract_type(t) else [t]
        node.rt = ctx.fresh("rt"); ctx.side.append(z3.And(node.rt >= 0, node.rt < len(poss)))
        node.poss = poss; node.variants = []
        for rt in poss:
            grouped = collect(ctx, rt, [(c, f.selection_set) for c, f in entries if f.selection_set])
            var = {}
            for key, ents in grouped.items():
                fname = ents[0][1].name.value
                ftype = GraphQLNonNull(ctx.schema.type_map["String"]) if fname == "__typename" else rt.fields[fname].type
                pres_cond = z3.Or(*[c for c, _ in ents])
                var[key] = (ctx.fresh("p", "bool"), pres_cond, build(ctx, ftype, ents, path + (rt.name, key)), ftype, fname)
            node.variants.append(var)
    return node

def root(ctx):
    rt = {"query": ctx.schema.query_type, "mutation": ctx.schema.mutation_type, "subscription": ctx.schema.subscription_type}[ctx.op.operation.value]
    fake = FieldNode(name=None, selection_set=ctx.op.selection_set)
    return build(ctx, GraphQLNonNull(rt), [(z3.BoolVal(True), fake)], ())

# ---------------- GraphQL side
def conf(ctx, node, typ):
    if isinstance(typ, GraphQLNonNull): return z3.And(node.kind != NULL, conf_inner(ctx, node, typ.of_type))
    return z3.Or(node.kind == NULL, conf_inner(ctx, node, typ))
def conf_inner(ctx, node, t):
    if isinstance(t, GraphQLList):
        return z3.And(node.kind == LIST, *[z3.Implies(i < node.llen, conf(ctx, node.elems[i], t.of_type)) for i in range(L)])
    if isinstance(t, GraphQLEnumType):
        return z3.And(node.kind == STR, z3.Or(*[node.sval == ctx.sidx[v] for v in t.values]))
    if isinstance(t, GraphQLScalarType):
        return {"Int": node.kind == INT, "Float": z3.Or(node.kind == INT, node.kind == FLOAT), "String": node.kind == STR,
                "ID": node.kind == STR, "Boolean": node.kind == BOOL}.get(t.name, z3.BoolVal(True))
    alts = []
    for i, rt in enumerate(node.poss):
        cs = [node.rt == i]
        for key, (p, cond, sub, ftype, fname) in node.variants[i].items():
            cs.append(p == cond)
            if fname == "__typename": cs.append(z3.Implies(p, z3.And(sub.kind == STR, sub.sval == ctx.sidx[rt.name])))
            else: cs.append(z3.Implies(p, conf(ctx, sub, ftype)))
        alts.append(z3.And(*cs))
    return z3.And(node.kind == OBJ, z3.Or(*alts))

# ---------------- pydantic side
def sub_slice(ann):
    return ann.slice
def acc(ctx, ann, node, disc=None):
    cl = ctx.classes
    if isinstance(ann, ast.Constant) and isinstance(ann.value, str): ann = ast.parse(ann.value, mode="eval").body
    if isinstance(ann, ast.Subscript):
        head = ast.unparse(ann.value)
        if head == "Optional": return z3.Or(node.kind == NULL, acc(ctx, ann.slice, node, disc))
        if head == "List":
            if node.elems is not None:
                return z3.And(node.kind == LIST, *[z3.Implies(i < node.llen, acc(ctx, ann.slice, node.elems[i])) for i in range(L)])
            return z3.And(node.kind == LIST, z3.Or(z3.Not(node.nonempty), acc_const_int(ctx, ann.slice)))
        if head == "Annotated":
            inner, meta = ann.slice.elts[0], ann.slice.elts[1]
            m = ast.unparse(meta)
            if m.startswith("Field("):
                d = [kw for kw in meta.keywords if kw.arg == "discriminator"]
                return acc(ctx, inner, node, ast.literal_eval(d[0].value) if d else None)
            if m.startswith("BeforeValidator("): return z3.BoolVal(True)
            raise NotImplementedError(m)
        if head == "Literal":
            vals = [ast.literal_eval(e) for e in (ann.slice.elts if isinstance(ann.slice, ast.Tuple) else [ann.slice])]
            return z3.And(node.kind == STR, z3.Or(*[node.sval == ctx.sidx[v] for v in vals if v in ctx.sidx]))
        if head == "Union":
            members = ann.slice.elts if isinstance(ann.slice, ast.Tuple) else [ann.slice]
            names = [m.value if isinstance(m, ast.Constant) else ast.unparse(m) for m in members]
            assert disc, "non-discriminated union"
            return acc_disc_union(ctx, names, node, disc)
        raise NotImplementedError(head)
    name = ast.unparse(ann)
    if name == "Any": return z3.BoolVal(True)
    if name == "str": return node.kind == STR
    if name == "int": return z3.Or(node.kind == INT, node.kind == BOOL)               # lax: bool -> int
    if name == "float": return z3.Or(node.kind == INT, node.kind == FLOAT, node.kind == BOOL)
    if name == "bool": return node.kind == BOOL                                       # reps 7 / "abc" not coercible
    if name in cl and cl[name].is_enum:
        return z3.And(node.kind == STR, z3.Or(*[node.sval == ctx.sidx[v] for v in cl[name].enum_values]))
    if name in cl: return acc_class(ctx, name, node)
    return z3.BoolVal(True)  # pydantic-native type: uninterpreted (not judged)

def acc_const_int(ctx, ann):
    """acceptance of the opaque representative element 7"""
    n = Node.__new__(Node); n.kind = z3.IntVal(INT); n.sval = z3.IntVal(0); n.elems = None; n.variants = None; n.nonempty = z3.BoolVal(False)
    return acc(ctx, ann, n)

def variant_views(node):
    """list of (guard, {key: (present, subnode)}) views of an object node"""
    if node.variants is not None:
        return [(node.rt == i, {k: (v[0], v[2]) for k, v in var.items()}) for i, var in enumerate(node.variants)]
    one = Node.__new__(Node); one.kind = z3.IntVal(INT); one.sval = z3.IntVal(0); one.elems = None; one.variants = None; one.nonempty = z3.BoolVal(False)
    return [(z3.BoolVal(True), {"k": (node.nonempty, one)})]

def acc_fields(ctx, cname, view):
    cs = []
    for f in all_fields(ctx.classes, cname).values():
        ent = view.get(f.alias) if f.alias else None
        if ent is None: ent = view.get(f.name)            # populate_by_name / no alias
        if ent is None: cs.append(z3.BoolVal(f.has_default)); continue
        p, sub = ent
        cs.append(z3.If(p, acc(ctx, f.ann, sub, f.discriminator), z3.BoolVal(f.has_default)))
    return z3.And(*cs) if cs else z3.BoolVal(True)

def acc_class(ctx, cname, node):
    return z3.And(node.kind == OBJ, z3.Or(*[z3.And(g, acc_fields(ctx, cname, view)) for g, view in variant_views(node)]))

def literal_of(ctx, cname, fname):
    f = all_fields(ctx.classes, cname).get(fname)
    if f is None: return None, None
    ann = f.ann
    if isinstance(ann, ast.Subscript) and ast.unparse(ann.value) == "Literal":
        return [ast.literal_eval(e) for e in (ann.slice.elts if isinstance(ann.slice, ast.Tuple) else [ann.slice])], f
    return None, f

def acc_disc_union(ctx, names, node, disc):
    alts = []
    for g, view in variant_views(node):
        for m in names:
            lits, f = literal_of(ctx, m, disc)
            key = f.alias or f.name
            ent = view.get(key)
            if ent is None: continue
            p, sub = ent
            alts.append(z3.And(g, p, sub.kind == STR, z3.Or(*[sub.sval == ctx.sidx[v] for v in lits if v in ctx.sidx]), acc_fields(ctx, m, view)))
    return z3.And(node.kind == OBJ, z3.Or(*alts) if alts else z3.BoolVal(False))

# ---------------- model -> concrete JSON
def concretize(ctx, m, node):
    k = m.eval(node.kind, model_completion=True).as_long()
    if k == NULL: return None
    if k == BOOL: return True
    if k == INT: return 7
    if k == FLOAT: return 1.5
    if k == STR: return ctx.strs[m.eval(node.sval, model_completion=True).as_long()]
    ne = z3.is_true(m.eval(node.nonempty, model_completion=True))
    if k == LIST:
        if node.elems is None: return [7] if ne else []
        n = m.eval(node.llen, model_completion=True).as_long()
        return [concretize(ctx, m, node.elems[i]) for i in range(n)]
    if node.variants is None: return {"k": 7} if ne else {}
    i = m.eval(node.rt, model_completion=True).as_long()
    return {key: concretize(ctx, m, sub) for key, (p, cond, sub, ft, fn) in node.variants[i].items() if z3.is_true(m.eval(p, model_completion=True))}

def rt_map(ctx, m, node, out):
    if node.variants is not None:
        i = m.eval(node.rt, model_completion=True).as_long(); out[node.path] = node.poss[i].name
        for key, (p, cond, sub, ft, fn) in node.variants[i].items(): rt_map(ctx, m, sub, out)
    if node.elems is not None:
        for e in node.elems: rt_map(ctx, m, e, out)
    return out
