import sys
sys.path.insert(0, "/tmp/probe/repofix")
import permset; permset.install()
import ast
from graphql import build_ast_schema, parse
from crosshair.tracers import NoTracing
from ariadne_codegen.client_generators.fragments import FragmentsGenerator
from ariadne_codegen.client_generators import fragments as fm
assert fm.set is permset.PermSet
SDL = "type Query { me: User! } type User { id: ID! name: String age: Int email: String }"
SCHEMA = build_ast_schema(parse(SDL), assume_valid=True)
NAMES = ["Aaa", "Bbb", "Ccc", "Ddd"]
FIELDS = ["id", "name", "age", "email"]
def make(edges):
    frs = []
    for i, n in enumerate(NAMES):
        spreads = " ".join("..." + NAMES[j] for j in range(len(NAMES)) if edges[i][j])
        frs.append(f"fragment {n} on User {{ {FIELDS[i]} {spreads} }}")
    doc = parse("\n".join(frs))
    return {d.name.value: d for d in doc.definitions}
def gen(defs):
    g = FragmentsGenerator(schema=SCHEMA, fragments_definitions=defs)
    return ast.unparse(g.generate())
def check(e01: bool, e02: bool, e03: bool, e12: bool, e13: bool, e23: bool, r0: int, r1: int, r2: int, r3: int) -> bool:
    """
    post: _
    """
    edges = [[False]*4 for _ in range(4)]
    edges[0][1] = True if e01 else False; edges[0][2] = True if e02 else False; edges[0][3] = True if e03 else False
    edges[1][2] = True if e12 else False; edges[1][3] = True if e13 else False; edges[2][3] = True if e23 else False
    with NoTracing():
        defs = make(edges)
        permset.ORACLE.ranks = {}
        ref = gen(defs)
    permset.ORACLE.ranks = dict(zip(NAMES, [r0, r1, r2, r3]))
    got = gen(defs)
    return got == ref
