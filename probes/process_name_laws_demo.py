"""Prototype: process_name laws over all GraphQL names up to N via bounded strings."""
import z3, time, sys, keyword
from rx import *
from ariadne_codegen.utils import PYDANTIC_RESERVED_FIELD_NAMES, process_name, str_to_snake_case
PAT = r"[A-Z]?[a-z]+|[A-Z]+(?=[A-Z][a-z]|\d|\W|_|$)|\d+"
N = int(sys.argv[1]) if len(sys.argv) > 1 else 8

def mk(name, cap):
    return BStr([z3.Int(f"{name}{i}") for i in range(cap)], z3.Int(f"{name}_n"))
def wf(s):  # well-formed padding + ascii word chars
    return z3.And(s.n >= 0, s.n <= s.cap, *[z3.If(i < s.n, is_word(s.chars[i]), s.chars[i] == 0) for i in range(s.cap)])
def gql_name(s): return z3.And(wf(s), s.n >= 1, z3.Not(is_digit(s.chars[0])))
def lower(c): return z3.If(is_upper(c), c + 32, c)

def snake(s):
    """returns (out BStr, side constraints) for str_to_snake_case via regex encoding"""
    tok, at = findall_tokens(PAT, s)
    cap = 2 * s.cap
    covered = [z3.Or(*[v for (i, j), v in tok.items() if i <= p < j] or [z3.BoolVal(False)]) for p in range(s.cap)]
    start = [z3.Or(*[v for (i, j), v in tok.items() if i == p and j > i] or [z3.BoolVal(False)]) for p in range(s.cap)]
    # output index of input char p = (#covered before p) + (#token starts at positions <= p) - 1
    idx = []
    for p in range(s.cap):
        idx.append(z3.Sum([z3.If(covered[q], 1, 0) for q in range(p)] + [z3.If(start[q], 1, 0) for q in range(p + 1)] + [z3.IntVal(-1)]))
    ntok = z3.Sum([z3.If(st, 1, 0) for st in start] + [z3.IntVal(0)])
    ncov = z3.Sum([z3.If(c, 1, 0) for c in covered] + [z3.IntVal(0)])
    out_n = z3.If(ntok == 0, 0, ncov + ntok - 1)
    chars = []
    for k in range(cap):
        e = z3.IntVal(0)
        for p in reversed(range(s.cap)):
            e = z3.If(z3.And(covered[p], idx[p] == k), lower(s.chars[p]), z3.If(z3.And(start[p], idx[p] - 1 == k, k >= 0), z3.IntVal(95), e))
        chars.append(z3.If(k < out_n, e, 0))
    return BStr(chars, out_n)

def eq_const(s, lit):
    if len(lit) > s.cap: return z3.BoolVal(False)
    return z3.And(s.n == len(lit), *[s.chars[i] == ord(ch) for i, ch in enumerate(lit)])
def in_list(s, lits): return z3.Or(*[eq_const(s, l) for l in lits])
def append_if(s, cond, ch):
    """s + ch if cond else s  (cap+1)"""
    chars = [z3.If(z3.And(cond, s.n == i), ord(ch), s.chars[i] if i < s.cap else z3.IntVal(0)) for i in range(s.cap + 1)]
    return BStr(chars, z3.If(cond, s.n + 1, s.n))
def lstrip_us(s):
    lead = z3.Int(f"lead_{id(s)}")
    # lead = number of leading underscores
    cs = [lead >= 0, lead <= s.n]
    for i in range(s.cap): cs.append(z3.Implies(i < lead, s.chars[i] == 95))
    cs.append(z3.Or(lead == s.n, z3.Or(*[z3.And(lead == i, s.chars[i] != 95) for i in range(s.cap)])))
    chars = []
    for k in range(s.cap):
        e = z3.IntVal(0)
        for sh in range(s.cap - k):
            e = z3.If(lead == sh, s.chars[k + sh], e)
        chars.append(z3.If(k < s.n - lead, e, 0))
    return BStr(chars, s.n - lead), cs

KW = keyword.kwlist
def process(s, snake_on, trim, reserved):
    side = []
    p = snake(s) if snake_on else s
    p = append_if(p, in_list(p, KW), "_")
    if reserved: p = append_if(p, in_list(p, PYDANTIC_RESERVED_FIELD_NAMES), "_")
    if trim:
        p, cs = lstrip_us(p); side += cs
    allus = z3.And(*[z3.Or(i >= s.n, s.chars[i] == 95) for i in range(s.cap)])
    fallback = z3.And(allus, p.n == 0)
    return p, side, fallback

def identifier(s): return z3.And(s.n >= 1, z3.Not(is_digit(s.chars[0])), *[z3.Or(i >= s.n, is_word(s.chars[i])) for i in range(s.cap)])

def show(m, s):
    L = m.eval(s.n, model_completion=True).as_long()
    return "".join(chr(m.eval(s.chars[i], model_completion=True).as_long()) for i in range(L))

x = mk("x", N)
for snake_on in (False, True):
    for trim, reserved, role in ((True, True, "model field"), (False, False, "argument")):
        t0 = time.time()
        out, side, fb = process(x, snake_on, trim, reserved)
        sol = z3.Solver(); sol.add(gql_name(x), *side)
        # P1-P3: not fallback -> identifier, not keyword, (model field) not reserved, no leading underscore
        bad = z3.And(z3.Not(fb), z3.Or(z3.Not(identifier(out)), in_list(out, KW), in_list(out, PYDANTIC_RESERVED_FIELD_NAMES) if reserved else False))
        sol.add(bad)
        r = sol.check(); dt = time.time() - t0
        msg = f"snake={snake_on} role={role}: P1-3 {r} {dt:.1f}s"
        if r == z3.sat:
            m = sol.model(); name = show(m, x)
            real = process_name(name, convert_to_snake_case=snake_on, trim_leading_underscore=trim, handle_pydantic_resrved_field_names=reserved)
            msg += f"  x={name!r} enc_out={show(m, out)!r} real_out={real!r}"
        print(msg, flush=True)

print("--- excluding known class: first non-underscore char is a digit")
def first_alnum_is_digit(s):
    alts = []
    for i in range(s.cap):
        alts.append(z3.And(i < s.n, is_digit(s.chars[i]), *[s.chars[j] == 95 for j in range(i)]))
    return z3.Or(*alts)
for snake_on in (False, True):
    for trim, reserved, role in ((True, True, "model field"), (False, False, "argument")):
        t0 = time.time()
        out, side, fb = process(x, snake_on, trim, reserved)
        sol = z3.Solver(); sol.add(gql_name(x), *side, z3.Not(first_alnum_is_digit(x)))
        bad = z3.And(z3.Not(fb), z3.Or(z3.Not(identifier(out)), in_list(out, KW), in_list(out, PYDANTIC_RESERVED_FIELD_NAMES) if reserved else False))
        sol.add(bad)
        r = sol.check(); dt = time.time() - t0
        msg = f"snake={snake_on} role={role}: P1-3 {r} {dt:.1f}s"
        if r == z3.sat:
            m = sol.model(); name = show(m, x)
            real = process_name(name, convert_to_snake_case=snake_on, trim_leading_underscore=trim, handle_pydantic_resrved_field_names=reserved)
            msg += f"  x={name!r} enc_out={show(m, out)!r} real_out={real!r}"
        print(msg, flush=True)
print("--- idempotence of snake (cap grows to 2N)")
t0 = time.time()
o1 = snake(x); o2 = snake(o1)
sol = z3.Solver(); sol.add(gql_name(x))
sol.add(z3.Or(o1.n != o2.n, *[z3.And(i < o1.n, o1.chars[i] != o2.chars[i]) for i in range(o1.cap)]))
r = sol.check(); print("snake idempotent:", r, f"{time.time()-t0:.1f}s")
if r == z3.sat:
    m = sol.model(); print(show(m, x), show(m, o1), show(m, o2))
