import sys, time
sys.path.insert(0, "/tmp/probe/repofix")
from graphql import build_ast_schema, parse
from ariadne_codegen.client_generators.result_types import ResultTypesGenerator
from ariadne_codegen.client_generators.fragments import FragmentsGenerator
from ariadne_codegen.schema import add_mixin_directive_to_schema
import ast
SDL = open("/tmp/probe/g1/schema.graphql").read()
Q = open("/tmp/probe/g1/queries.graphql").read()
def run(snake: bool):
    schema = build_ast_schema(parse(SDL), assume_valid=True)
    doc = parse(Q)
    frags = {d.name.value: d for d in doc.definitions if d.kind == "fragment_definition"}
    out = []
    for d in doc.definitions:
        if d.kind == "operation_definition":
            g = ResultTypesGenerator(schema=schema, operation_definition=d, enums_module_name="enums", fragments_module_name="fragments", fragments_definitions=frags, convert_to_snake_case=snake)
            out.append(ast.unparse(g.generate())); out.append(g.get_operation_as_str())
    return out
def check(snake: bool, x: int) -> bool:
    """
    pre: 0 <= x <= 3
    post: _
    """
    if x == 0: pass
    elif x == 1: pass
    elif x == 2: pass
    r = run(snake)
    return len(r) > 0
if __name__ == "__main__":
    t=time.time(); run(True); print("native", time.time()-t)
