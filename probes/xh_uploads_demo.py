from typing import Any
from ariadne_codegen.client_generators.dependencies.base_client import BaseClient
from ariadne_codegen.client_generators.dependencies.async_base_client import AsyncBaseClient
from ariadne_codegen.client_generators.dependencies.base_model import Upload, UNSET

U = [Upload("a.txt", None, "text/plain"), Upload("b.txt", None, "text/plain")]

class Ch:
    def __init__(self, ints): self.ints = ints; self.i = 0
    def pick(self, n):
        v = self.ints[self.i]; self.i += 1
        for k in range(n - 1):
            if v == k: return k
        return n - 1

def build(ch, depth):
    k = ch.pick(6 if depth > 0 else 4)
    if k == 0: return 7
    if k == 1: return None
    if k == 2: return U[0]
    if k == 3: return U[1]
    n = ch.pick(3)
    if k == 4: return [build(ch, depth - 1) for _ in range(n)]
    return {"k%d" % j: build(ch, depth - 1) for j in range(n)}

def spec(path, obj, files, fmap):
    if isinstance(obj, list): return [spec(f"{path}.{i}", v, files, fmap) for i, v in enumerate(obj)]
    if isinstance(obj, dict): return {k: spec(f"{path}.{k}", v, files, fmap) for k, v in obj.items()}
    if isinstance(obj, Upload):
        for i, f in enumerate(files):
            if f is obj: fmap[str(i)].append(path); return None
        files.append(obj); fmap[str(len(files) - 1)] = [path]; return None
    return obj

_c = BaseClient.__new__(BaseClient); _a = AsyncBaseClient.__new__(AsyncBaseClient)

def check(c0:int,c1:int,c2:int,c3:int,c4:int,c5:int,c6:int,c7:int,c8:int,c9:int,c10:int,c11:int,c12:int,c13:int) -> bool:
    """
    post: _
    """
    ch = Ch([c0,c1,c2,c3,c4,c5,c6,c7,c8,c9,c10,c11,c12,c13])
    n = ch.pick(3)
    variables = {"v%d" % j: build(ch, 2 if j == 0 else 1) for j in range(n)}
    files = []; fmap = {}
    exp_vars = spec("variables", variables, files, fmap)
    exp_files = {str(i): (f.filename, f.content, f.content_type) for i, f in enumerate(files)}
    r1 = _c._get_files_from_variables(variables)
    r2 = _a._get_files_from_variables(variables)
    return r1 == (exp_vars, exp_files, fmap) and r2 == r1
