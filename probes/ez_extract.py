"""Extract pydantic class model from emitted package sources (prototype)."""
import ast, os
from dataclasses import dataclass, field
from typing import Any, Dict, List, Optional

@dataclass
class FieldInfo:
    name: str
    ann: ast.expr
    alias: Optional[str] = None
    has_default: bool = False
    default_src: Optional[str] = None
    discriminator: Optional[str] = None

@dataclass
class ClassInfo:
    name: str
    bases: List[str]
    fields: Dict[str, FieldInfo]      # class-body semantics: annotation updated in place, value persists
    module: str = ""
    is_enum: bool = False
    enum_values: List[str] = field(default_factory=list)   # values (wire names)

def parse_field_call(call: ast.Call, fi: FieldInfo):
    for kw in call.keywords:
        if kw.arg == "alias": fi.alias = ast.literal_eval(kw.value)
        elif kw.arg == "default": fi.has_default = True; fi.default_src = ast.unparse(kw.value)
        elif kw.arg == "default_factory": fi.has_default = True; fi.default_src = "factory:" + ast.unparse(kw.value)
        elif kw.arg == "discriminator": fi.discriminator = ast.literal_eval(kw.value)

def extract_module(path: str, module: str) -> Dict[str, ClassInfo]:
    tree = ast.parse(open(path).read())
    out = {}
    for node in tree.body:
        if not isinstance(node, ast.ClassDef): continue
        bases = [ast.unparse(b) for b in node.bases]
        ci = ClassInfo(node.name, bases, {}, module)
        if "Enum" in bases:
            ci.is_enum = True
            for st in node.body:
                if isinstance(st, ast.Assign): ci.enum_values.append(ast.literal_eval(st.value))
        else:
            for st in node.body:
                if isinstance(st, ast.AnnAssign) and isinstance(st.target, ast.Name):
                    n = st.target.id
                    fi = ci.fields.get(n) or FieldInfo(n, st.annotation)
                    fi.ann = st.annotation
                    if st.value is not None:
                        if isinstance(st.value, ast.Call) and ast.unparse(st.value.func) == "Field":
                            fi.alias = None; fi.has_default = False; fi.discriminator = None
                            parse_field_call(st.value, fi)
                        else:
                            fi.has_default = True; fi.default_src = ast.unparse(st.value); fi.alias = None
                    ci.fields[n] = fi
        out[node.name] = ci
    return out

def extract_package(pkg_dir: str) -> Dict[str, ClassInfo]:
    classes = {}
    for fn in sorted(os.listdir(pkg_dir)):
        if fn.endswith(".py") and fn not in ("__init__.py",) and "base_client" not in fn and fn not in ("exceptions.py", "base_model.py", "client.py", "base_operation.py"):
            for k, v in extract_module(os.path.join(pkg_dir, fn), fn[:-3]).items():
                classes[k] = v      # generated class names are unique per package (operation prefix); fragments share
    return classes

def all_fields(classes, cname) -> Dict[str, FieldInfo]:
    """MRO-ish: bases left-to-right, later (more derived / leftmost) wins like python attribute lookup"""
    ci = classes[cname]
    res: Dict[str, FieldInfo] = {}
    for b in reversed(ci.bases):
        if b in classes and not classes[b].is_enum:
            res.update(all_fields(classes, b))
    res.update(ci.fields)
    return res

def subclasses_of(classes, cname, target) -> bool:
    if cname == target: return True
    return any(b in classes and subclasses_of(classes, b, target) for b in classes[cname].bases)
