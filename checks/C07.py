"""C07 - custom scalars are parsed and serialised exactly once per occurrence (E-X with instrumented user functions)."""
from vlib import xh

LEVEL = "exploration"
MOD = "harness.C07_scalars"


def run(rep, tier):
    from ariadne_codegen.client_generators import scalars as sc
    from ariadne_codegen.client_generators.arguments import ArgumentsGenerator
    from ariadne_codegen.client_generators.input_fields import parse_input_field_type
    from ariadne_codegen.client_generators.result_fields import parse_scalar_type

    rep.encoded(sc.generate_result_scalar_annotation, sc.generate_input_scalar_annotation, sc.generate_scalar_imports, sc.ScalarData.__post_init__,
                parse_scalar_type, parse_input_field_type, ArgumentsGenerator._get_dict_value)
    fns = ["check_results", "check_arguments", "check_inputs", "check_nested_results", "check_abstract_results", "check_falsy_values", "check_same_named_functions", "check_parse_is_type", "check_scalars_in_multipart", "check_config_variants", "twin_parse_twice_reached"]
    res = xh.run_targets([f"{MOD}.{f}" for f in fns], timeout=600 if tier == "quick" else 2400)
    xh.fold(rep, MOD, res)
    rep.coverage.update({
        "evaluations": len(res), "distinct_nontrivial": len(res) - 1, "exhaustive": all(r.status in ("confirmed", "counterexample") for r in res),
        "rule": "symbolic ints choose scalar configuration (type+parse+serialize, parse only, serialize only, pydantic-native type, unconfigured) x wrapper stack (T, T!, [T], [T!]!, [[T]], [T]!) x value shape (value / null / omitted / lists with null items / nested lists) for result fields, top-level variables and (nested) input-model fields; user functions are instrumented and must be called once per non-null occurrence with the raw value; 7 import-path styles x sync/async must import",
        "bounds": {"wrapper_stacks": 6, "list_len": "<= 3", "config_variants": 7},
        "results": [{"target": r.target.rsplit('.', 1)[-1], "status": r.status, "wall_s": round(r.wall, 1)} for r in res],
    })
    rep.sample({"position": "result field rB4: [[B]]", "payload": [["b1"], None, [None, "b1"]], "expected_calls": [["parse_b", "b1"], ["parse_b", "b1"]]})
    rep.assume("http client replaced by a recorder", "behaviour of pydantic-native types (datetime) is pydantic's own")


def replay(data):
    v = xh.replay_call(data["module"], data["call"])
    print("concrete replay:", v)
    return v is True
