"""C18 - GraphQL names map lawfully to Python names.

E-S: process_name / str_to_snake_case / str_to_pascal_case / the enum-value rule are translated from their
current source (AST -> bounded-string z3 terms); the flags of every call site are read from the call site's
AST.  For every role x {snake on, off} the laws are asked as satisfiability queries over *all* GraphQL
names up to length N.  Every witness is replayed on the real function before it counts.
"""
from __future__ import annotations

import ast
import inspect
import keyword
import random
import textwrap
import time
from typing import Any, Dict, List, Optional, Tuple

import z3

from vlib import boot, bstr, gen
from vlib.pyast2smt import Evaluator, UnsupportedConstruct, fold_returns

LEVEL = "other"


def call_site_flags(fn, callee="process_name") -> Dict[str, Any]:
    """read keyword flags of the process_name(...) call inside fn from its current source"""
    tree = ast.parse(textwrap.dedent(inspect.getsource(fn)))
    for n in ast.walk(tree):
        if isinstance(n, ast.Call) and isinstance(n.func, ast.Name) and n.func.id == callee:
            flags = {"convert_to_snake_case": "config", "trim_leading_underscore": False, "handle_pydantic_resrved_field_names": False}
            for kw in n.keywords:
                if kw.arg in flags:
                    if isinstance(kw.value, ast.Constant):
                        flags[kw.arg] = kw.value.value
                    else:
                        flags[kw.arg] = "config"
            return flags
    raise boot.HarnessError(f"no {callee}() call found in {fn.__qualname__}")


def roles():
    from ariadne_codegen.client_generators.arguments import ArgumentsGenerator
    from ariadne_codegen.client_generators.custom_arguments import ArgumentGenerator as CustomArgs
    from ariadne_codegen.client_generators.custom_fields import CustomFieldsGenerator
    from ariadne_codegen.client_generators.input_types import InputTypesGenerator
    from ariadne_codegen.client_generators.package import PackageGenerator
    from ariadne_codegen.client_generators.result_types import ResultTypesGenerator

    out = {
        "result_field": ResultTypesGenerator._process_field_name,
        "input_field": InputTypesGenerator._parse_input_definition,
        "argument": ArgumentsGenerator.generate,
        "operation": PackageGenerator.add_operation,
    }
    try:
        out["custom_argument"] = CustomArgs.generate_arguments
    except AttributeError:
        pass
    return out


def first_nonus_is_digit(s: bstr.BStr):
    alts = []
    for i in range(1, s.cap):
        alts.append(z3.And(i < s.n, bstr.is_digit(s.chars[i]), *[s.chars[j] == 95 for j in range(i)]))
    return z3.Or(*alts) if alts else z3.BoolVal(False)


def subseq_alnum(x: bstr.BStr, out: bstr.BStr, ci: bool):
    """the letters and digits of x occur in out in the same order (case-insensitively when ci)"""
    def alnum(c):
        return z3.Or(bstr.is_alpha(c), bstr.is_digit(c))

    norm = bstr.lower_c if ci else (lambda c: c)
    S = [[None] * (out.cap + 1) for _ in range(x.cap + 1)]
    for j in range(out.cap + 1):
        S[0][j] = z3.BoolVal(True)
    for i in range(1, x.cap + 1):
        xi = x.chars[i - 1]
        need = z3.And(i <= x.n, alnum(xi))
        S[i][0] = z3.If(need, z3.BoolVal(False), S[i - 1][0])
        for j in range(1, out.cap + 1):
            oj = out.chars[j - 1]
            take = z3.And(S[i - 1][j - 1], j <= out.n, norm(xi) == norm(oj))
            S[i][j] = z3.If(need, z3.Or(S[i][j - 1], take), S[i - 1][j])
    return S[x.cap][out.cap]


def py_subseq_alnum(x: str, out: str, ci: bool) -> bool:
    a = [c for c in x if c.isalnum()]
    b = list(out)
    if ci:
        a = [c.lower() for c in a]
        b = [c.lower() for c in b]
    it = iter(b)
    return all(c in it for c in a)


class Kernel:
    """symbolic + real version of one name mapping"""

    def __init__(self, role, snake, flags, N):
        from ariadne_codegen.utils import process_name

        self.role, self.snake, self.flags, self.N = role, snake, flags, N
        self.trim = bool(flags["trim_leading_underscore"])
        self.reserved = bool(flags["handle_pydantic_resrved_field_names"])
        self._pn = process_name

    def real(self, name: str) -> str:
        return self._pn(name, convert_to_snake_case=self.snake, trim_leading_underscore=self.trim,
                        handle_pydantic_resrved_field_names=self.reserved)

    def sym(self, x: bstr.BStr) -> bstr.BStr:
        ev = Evaluator(self._pn)
        return fold_returns(ev.call(x, self.snake, None, None, self.trim, self.reserved))


class EnumKernel:
    role, snake = "enum_value", False

    def __init__(self, N):
        from ariadne_codegen.client_generators.enums import EnumsGenerator

        self.N = N
        self.fn = EnumsGenerator._parse_enum_definition
        tree = ast.parse(textwrap.dedent(inspect.getsource(self.fn)))
        self.expr = None
        for n in ast.walk(tree):
            if isinstance(n, ast.Assign) and isinstance(n.targets[0], ast.Name) and n.targets[0].id == "name":
                self.expr = n.value
                names = {m.id for m in ast.walk(n.value) if isinstance(m, ast.Name)}
                self.var = next(iter(names - {"iskeyword"}))
        if self.expr is None:
            raise boot.HarnessError("enum member naming rule not found in _parse_enum_definition")
        self.code = compile(ast.Expression(self.expr), "<enum-rule>", "eval")

    def real(self, name: str) -> str:
        return eval(self.code, dict(self.fn.__globals__), {self.var: name})

    def sym(self, x):
        ev = Evaluator(self.fn)
        v = ev.expr(self.expr, {self.var: x})
        return v if isinstance(v, bstr.BStr) else bstr.const(v)


ENUM_RESERVED_EXACT = ["mro"]


def py_is_enum_reserved(n: str) -> bool:
    import enum as _e

    return n in ENUM_RESERVED_EXACT or _e._is_sunder(n) or _e._is_dunder(n) or _e._is_descriptor(n) if hasattr(_e, "_is_descriptor") and not isinstance(n, str) else (
        n in ENUM_RESERVED_EXACT or _e._is_sunder(n) or _e._is_dunder(n))


def sym_is_sunder(s: bstr.BStr):
    # enum._is_sunder: len > 2, s[0] == s[-1] == '_', s[1] != '_', s[-2] != '_'
    alts = []
    for L in range(3, s.cap + 1):
        alts.append(z3.And(s.n == L, s.chars[0] == 95, s.chars[L - 1] == 95, s.chars[1] != 95, s.chars[L - 2] != 95))
    return z3.Or(*alts) if alts else z3.BoolVal(False)


def sym_is_dunder(s: bstr.BStr):
    alts = []
    for L in range(5, s.cap + 1):
        alts.append(z3.And(s.n == L, s.chars[0] == 95, s.chars[1] == 95, s.chars[L - 1] == 95, s.chars[L - 2] == 95, s.chars[2] != 95, s.chars[L - 3] != 95))
    return z3.Or(*alts) if alts else z3.BoolVal(False)


def solve_loop(rep, label, base, bad, x, ys, classify, replay_real, max_iter=40):
    """enumerate witnesses of base & bad; classify -> (sig, block) ; known ones are blocked by class"""
    s = z3.Solver()
    s.set("timeout", 120000)
    s.add(*base)
    s.add(bad)
    new = 0
    for _ in range(max_iter):
        t0 = time.time()
        r = str(s.check())
        rep.q(r, time.time() - t0)
        if r == "unsat":
            return True
        if r != "sat":
            rep.note_inconclusive(f"{label}: solver {r}")
            return False
        m = s.model()
        names = [bstr.show(m, v) for v in [x] + ys]
        ok, detail = replay_real(names)
        if ok:
            raise boot.HarnessError(f"{label}: witness {names} does not violate the law on the real function ({detail}); encoding disagrees")
        sig, block = classify(names, m)
        known = rep.violation(sig, {"law": label, "names": names, "detail": detail}, f"{label}: {names} -> {detail}")
        if not known:
            new += 1
            if new >= 3:
                return False
            block = z3.Not(z3.And(*[bstr.eq_const(v, n) for v, n in zip([x] + ys, names)]))
        s.add(block)
    rep.note_inconclusive(f"{label}: more than {max_iter} witness classes")
    return False


def validate_encoding(rep, k, x, out, seed, extra_names):
    """translator validation: encoding == real function on the repo's own test inputs + random names"""
    rnd = random.Random(seed)
    names = set(extra_names)
    alpha = "_aZ9bQ_1xYif_"
    while len(names) < len(extra_names) + 120:
        nm = "".join(rnd.choice(alpha) for _ in range(rnd.randint(1, k.N)))
        if not nm[0].isdigit():
            names.add(nm)
    s = z3.Solver()
    s.add(bstr.wf(x))
    n_ok = 0
    for nm in sorted(names):
        if len(nm) > k.N or not nm or nm[0].isdigit() or not all(c.isalnum() and c.isascii() or c == "_" for c in nm):
            continue
        s.push()
        s.add(bstr.eq_const(x, nm))
        if str(s.check()) != "sat":
            raise boot.HarnessError("validation query not sat")
        enc = bstr.show(s.model(), out)
        s.pop()
        real = k.real(nm)
        if enc != real:
            raise boot.HarnessError(f"encoding of {k.role} (snake={k.snake}) disagrees with the real function on {nm!r}: {enc!r} vs {real!r}")
        n_ok += 1
    return n_ok


def harvest_test_names() -> List[str]:
    """names used by the repo's own tests for these kernels"""
    out = []
    import re

    try:
        src = open("/repo/tests/test_utils.py").read()
        out = re.findall(r'"([_A-Za-z][_0-9A-Za-z]{0,9})"', src)
    except OSError:
        pass
    return sorted(set(out))


def site_kernel(rep, N, snake):
    """the whole naming site of result fields, ResultTypesGenerator._process_field_name(name, field), over TWO symbolic names:
    the response key x (the alias when there is one) and the schema field name y the selection refers to.  The Python name
    must be an identifier law-abiding image of the RESPONSE KEY whatever field it aliases (L1-3, L5)."""
    from types import SimpleNamespace

    from graphql import FieldNode, NameNode

    from ariadne_codegen import utils
    from ariadne_codegen.client_generators.result_types import ResultTypesGenerator

    fn = ResultTypesGenerator._process_field_name
    rep.encoded(fn)
    KW = keyword.kwlist
    RES = list(utils.PYDANTIC_RESERVED_FIELD_NAMES)
    NY = max(N, 10)  # the field name must be able to be "__typename"
    x, y = bstr.mk("x", N), bstr.mk("y", NY)
    me = SimpleNamespace(convert_to_snake_case=snake, plugin_manager=None)
    field = SimpleNamespace(name=SimpleNamespace(value=y), alias=SimpleNamespace(value=x))
    try:
        out = fold_returns(Evaluator(fn).call(me, x, field))
    except (UnsupportedConstruct, NotImplementedError) as e:
        raise boot.HarnessError(f"result_field_site: source uses a construct outside the translated subset: {e}")
    out = out if isinstance(out, bstr.BStr) else bstr.const(out)

    def real(key, fname):
        node = FieldNode(name=NameNode(value=fname), alias=NameNode(value=key) if key != fname else None)
        return fn(SimpleNamespace(convert_to_snake_case=snake, plugin_manager=None), key, node)

    # translator validation on concrete pairs (aliased and unaliased, incl. __typename on either side)
    s = z3.Solver()
    s.add(bstr.wf(x), bstr.wf(y))
    pairs = [("id", "id"), ("kind", "__typename"), ("__typename", "__typename"), ("__typename", "id"), ("userName", "name"), ("_x", "class"), ("tn", "__typename")]
    pairs = [(a, b) for a, b in pairs if len(a) <= N and len(b) <= NY] or [("id", "id")]
    for a, b in pairs:
        s.push()
        s.add(bstr.eq_const(x, a), bstr.eq_const(y, b))
        if str(s.check()) != "sat":
            raise boot.HarnessError("site validation query not sat")
        enc = bstr.show(s.model(), out)
        s.pop()
        if enc != real(a, b):
            raise boot.HarnessError(f"encoding of _process_field_name disagrees with the real function on key={a!r} field={b!r}: {enc!r} vs {real(a, b)!r}")
    base = [bstr.gql_name(x), bstr.gql_name(y)]
    lab = f"result_field_site/snake={snake}"
    known_id = []  # the identifier law of the inner process_name call is decided (with its known classes) by the result_field kernel
    # L5 at the site: letters and digits of the response key are kept, whatever field it aliases
    def replay_keep(names):
        o = real(names[0], names[1])
        return py_subseq_alnum(names[0], o, snake), f"key {names[0]!r} on field {names[1]!r} -> {o!r}"

    solve_loop(rep, f"L5 letters/digits of the response key kept {lab}", base, z3.Not(subseq_alnum(x, out, snake)), x, [y],
               lambda names, m: ({"law": "keep", "role": "result_field_site", "snake": snake, "class": "other", "name": names[0], "field": names[1]}, None), replay_keep)
    # site law: the name does not depend on WHICH field the key aliases (two selections with one key are one Python name, and one
    # key never maps to two names): out(x, y) == out(x, y2)
    y2 = bstr.mk("y2", NY)
    field2 = SimpleNamespace(name=SimpleNamespace(value=y2), alias=SimpleNamespace(value=x))
    out2 = fold_returns(Evaluator(fn).call(me, x, field2))
    out2 = out2 if isinstance(out2, bstr.BStr) else bstr.const(out2)

    def replay_indep(names):
        a, b = real(names[0], names[1]), real(names[0], names[2])
        return a == b, f"key {names[0]!r}: on field {names[1]!r} -> {a!r}, on field {names[2]!r} -> {b!r}"

    solve_loop(rep, f"site: name is a function of the response key {lab}", base + [bstr.gql_name(y2)], z3.Not(bstr.eq(out, out2)), x, [y, y2],
               lambda names, m: ({"law": "site_key_function", "role": "result_field_site", "snake": snake, "class": "other", "name": names[0]}, None), replay_indep)
    rep.extra.update({"validated": len(pairs), "laws": 2})


def kernel_specs():
    specs = []
    for role, fn in roles().items():
        flags = call_site_flags(fn)
        snakes = [True, False] if flags["convert_to_snake_case"] == "config" else [bool(flags["convert_to_snake_case"])]
        for sn in snakes:
            specs.append({"role": role, "snake": sn, "flags": flags})
    for sn in (True, False):
        specs.append({"role": "result_field_site", "snake": sn, "flags": None})
    specs.append({"role": "enum_value", "snake": False, "flags": None})
    specs.append({"role": "operation_class", "snake": False, "flags": None})
    return specs


def kernel_job(job):
    import traceback

    rep = boot.MiniReport("C18", job["known"])
    try:
        _kernel_job(rep, job)
    except boot.HarnessError as e:
        rep.harness_error(str(e))
    except Exception:  # noqa: BLE001
        rep.harness_error("kernel job crashed: " + traceback.format_exc()[-800:])
    return rep.dump()


def _kernel_job(rep, job):
    from ariadne_codegen import utils

    N, N_idem, spec = job["N"], job["N_idem"], job["spec"]
    KW = keyword.kwlist
    RES = list(utils.PYDANTIC_RESERVED_FIELD_NAMES)
    test_names = harvest_test_names()
    validated = 0
    laws = 0
    if spec["role"] == "result_field_site":
        site_kernel(rep, N, spec["snake"])
        return
    if spec["role"] == "operation_class":
        x = bstr.mk("x", N)
        pas = fold_returns(Evaluator(utils.str_to_pascal_case).call(x))

        class PK:
            role, snake = "operation_class", False

            @staticmethod
            def real(n):
                return utils.str_to_pascal_case(n)

        PK.N = N
        validated += validate_encoding(rep, PK, x, pas, boot.seed(), test_names)
        rep.extra.update({"validated": validated, "laws": 0})
        return
    if spec["role"] == "enum_value":
        k = EnumKernel(N)
        rep.encoded(k.fn)
    else:
        rep.encoded(roles()[spec["role"]])
        k = Kernel(spec["role"], spec["snake"], spec["flags"], N)
    if True:
        x = bstr.mk("x", N)
        try:
            out = k.sym(x)
        except (UnsupportedConstruct, NotImplementedError) as e:
            raise boot.HarnessError(f"{k.role}: source uses a construct outside the translated subset: {e}")
        validated += validate_encoding(rep, k, x, out, boot.seed(), test_names)
        base = [bstr.gql_name(x)]
        is_model_field = k.role in ("result_field", "input_field")
        lab = f"{k.role}/snake={k.snake}"
        # ---- L1-L3: valid identifier, not keyword, (model fields) not shadowing pydantic, (enum) not enum-reserved
        bad_terms = [z3.Not(bstr.is_ascii_identifier(out)), bstr.in_list(out, KW)]
        if is_model_field:
            bad_terms += [bstr.in_list(out, RES), z3.And(out.n >= 1, out.chars[0] == 95)]
        if k.role == "enum_value":
            bad_terms += [bstr.eq_const(out, "mro"), sym_is_sunder(out), sym_is_dunder(out)]

        def replay_ident(names, k=k, is_model_field=is_model_field):
            o = k.real(names[0])
            bad = (not o.isidentifier()) or keyword.iskeyword(o)
            if is_model_field:
                bad = bad or o in RES or o.startswith("_")
            if k.role == "enum_value":
                import enum as _e

                bad = bad or o == "mro" or _e._is_sunder(o) or _e._is_dunder(o)
            return (not bad), f"{names[0]!r} -> {o!r}"

        def classify_ident(names, m, k=k, x=x):
            nm = names[0]
            o = k.real(nm)
            stripped = nm.lstrip("_")
            if not o.isidentifier() and stripped[:1].isdigit() and nm.startswith("_"):
                return {"law": "identifier", "role": k.role, "snake": k.snake, "class": "leading_underscores_then_digit"}, z3.Not(first_nonus_is_digit(x))
            if nm.startswith("_") and (keyword.iskeyword(o) or o in RES) and not k.snake:
                return ({"law": "identifier", "role": k.role, "snake": k.snake, "class": "keyword_or_reserved_after_trim"},
                        z3.Not(z3.And(x.chars[0] == 95, bstr.in_list(bstr.lstrip_char(x, 95), KW + RES))))
            if k.role == "enum_value":
                import enum as _e

                if o == "mro" or _e._is_sunder(o) or _e._is_dunder(o):
                    return ({"law": "identifier", "role": k.role, "snake": k.snake, "class": "enum_reserved_name"},
                            z3.Not(z3.Or(bstr.eq_const(x, "mro"), sym_is_sunder(x), sym_is_dunder(x))))
            return {"law": "identifier", "role": k.role, "snake": k.snake, "class": "other", "name": nm, "out": o}, None

        solve_loop(rep, f"L1-3 identifier {lab}", base, z3.Or(*bad_terms), x, [], classify_ident, replay_ident)
        laws += 1

        # ---- L5: letters and digits kept in order
        def replay_keep(names, k=k):
            o = k.real(names[0])
            return py_subseq_alnum(names[0], o, k.snake), f"{names[0]!r} -> {o!r}"

        solve_loop(rep, f"L5 letters/digits kept {lab}", base, z3.Not(subseq_alnum(x, out, k.snake)), x, [],
                   lambda names, m, k=k: ({"law": "keep", "role": k.role, "snake": k.snake, "class": "other", "name": names[0]}, None), replay_keep)
        laws += 1

        # ---- L7: pair law
        y = bstr.mk("y", N)
        outy = k.sym(y)

        def replay_pair(names, k=k):
            a, b = k.real(names[0]), k.real(names[1])
            return not (names[0] != names[1] and a == b), f"{names[0]!r},{names[1]!r} -> {a!r}"

        def classify_pair(names, m, k=k, x=x, y=y):
            from ariadne_codegen.utils import str_to_snake_case

            a, b = names
            sig = {"law": "pair", "role": k.role, "snake": k.snake}
            if k.snake and str_to_snake_case(a) == str_to_snake_case(b):
                sx = fold_returns(Evaluator(str_to_snake_case).call(x))
                sy = fold_returns(Evaluator(str_to_snake_case).call(y))
                sig["class"] = "snake_case_merge"
                return sig, z3.Not(bstr.eq(sx, sy))
            if a + "_" == b or b + "_" == a:
                short = a if len(a) < len(b) else b
                sig["class"] = "keyword_suffix" if keyword.iskeyword(short) else ("reserved_suffix" if short in RES else "suffix_other")
                if sig["class"] != "suffix_other":
                    lits = KW if sig["class"] == "keyword_suffix" else RES
                    blk = z3.Not(z3.Or(z3.And(bstr.in_list(x, lits), bstr.eq(y, bstr.concat(x, bstr.const("_")))),
                                       z3.And(bstr.in_list(y, lits), bstr.eq(x, bstr.concat(y, bstr.const("_"))))))
                    return sig, blk
            if getattr(k, "trim", False) and a.lstrip("_") == b.lstrip("_"):
                sig["class"] = "leading_underscore_trim"
                return sig, z3.Not(bstr.eq(bstr.lstrip_char(x, 95), bstr.lstrip_char(y, 95)))
            if getattr(k, "trim", False) and (a.lstrip("_") + "_" == b.lstrip("_") or b.lstrip("_") + "_" == a.lstrip("_")):
                sig["class"] = "trim_then_suffix"
                lx, ly = bstr.lstrip_char(x, 95), bstr.lstrip_char(y, 95)
                return sig, z3.Not(z3.Or(bstr.eq(ly, bstr.concat(lx, bstr.const("_"))), bstr.eq(lx, bstr.concat(ly, bstr.const("_")))))
            if set(a) == {"_"} or set(b) == {"_"}:
                sig["class"] = "all_underscore_fallback"
                return sig, z3.Not(z3.Or(bstr.charset_is(x, 95), bstr.charset_is(y, 95)))
            sig["class"] = "other"
            sig["names"] = names
            return sig, None

        solve_loop(rep, f"L7 pair {lab}", base + [bstr.gql_name(y)], z3.And(z3.Not(bstr.eq(x, y)), bstr.eq(out, outy)), x, [y], classify_pair, replay_pair)
        laws += 1

        # ---- L4: idempotence (second application on the output; smaller N because the cap doubles)
        if k.role != "enum_value":
            xi = bstr.mk("xi", N_idem)
            o1 = k.sym(xi)
            o2 = k.sym(o1)

            def replay_idem(names, k=k):
                o = k.real(names[0])
                oo = k.real(o) if o else o
                return o == oo, f"{names[0]!r} -> {o!r} -> {oo!r}"

            def classify_idem(names, m, k=k, xi=xi):
                nm = names[0]
                if nm.startswith("_") and not k.snake and (nm.lstrip("_") in KW or nm.lstrip("_") in RES):
                    return ({"law": "identifier", "role": k.role, "snake": k.snake, "class": "keyword_or_reserved_after_trim"},
                            z3.Not(z3.And(xi.chars[0] == 95, bstr.in_list(bstr.lstrip_char(xi, 95), KW + RES))))
                if set(nm) == {"_"}:
                    return {"law": "idempotent", "role": k.role, "snake": k.snake, "class": "all_underscore_fallback"}, z3.Not(bstr.charset_is(xi, 95))
                return {"law": "idempotent", "role": k.role, "snake": k.snake, "class": "other", "name": nm}, None

            # only where f(x) is itself a GraphQL name (otherwise a second application is meaningless)
            solve_loop(rep, f"L4 idempotent {lab}", [bstr.gql_name(xi), bstr.is_ascii_identifier(o1)], z3.Not(bstr.eq(o1, o2)), xi, [], classify_idem, replay_idem)
            laws += 1

    rep.extra.update({"validated": validated, "laws": laws})


def run(rep, tier):
    from ariadne_codegen import utils

    N = 6 if tier == "quick" else 8
    N_idem = 4 if tier == "quick" else 6
    rep.encoded(utils.process_name, utils.str_to_snake_case, utils.str_to_pascal_case)
    specs = kernel_specs()
    jobs = [{"spec": sp, "N": N, "N_idem": N_idem, "known": rep._known} for sp in specs]
    results = gen.pmap(kernel_job, jobs, fresh=False)
    laws = validated = 0
    for d in results:
        boot.fold_mini(rep, d)
        laws += d["extra"].get("laws", 0)
        validated += d["extra"].get("validated", 0)
    # wire names (E-X over the emitted package): the original name stays the wire name for result fields, aliased result fields,
    # input fields and variables, snake case on and off
    from vlib import xh

    WM = "harness.C18_wire"
    xres = xh.run_targets([f"{WM}.check_wire_names_snake", f"{WM}.check_wire_names_plain", f"{WM}.check_operation_names", f"{WM}.check_operation_pairs", f"{WM}.twin_wire_keyword_input_reached"], timeout=300)
    xh.fold(rep, WM, xres)
    rep.coverage["wire_name_harness"] = [{"target": r.target.rsplit(".", 1)[-1], "status": r.status, "paths": r.paths, "wall_s": round(r.wall, 1)} for r in xres]
    rep.coverage.update({
        "explanation": f"bounded-string SMT over all GraphQL names [_A-Za-z][_0-9A-Za-z]* of length <= {N} (idempotence: <= {N_idem}); kernels translated from current source; laws L1-L5, L7 per role",
        "obligations": laws, "kernels": [f"{sp['role']}/snake={sp['snake']}" for sp in specs], "encoding_validation_agreements": validated,
        "evaluations": laws, "distinct_nontrivial": laws, "bounds": {"N": N, "N_idempotence": N_idem},
        "rule": "one solver query (plus re-solves after each acknowledged class) per law x role x snake flag",
    })
    rep.sample({"role": "result_field", "snake": True, "example": "fooBar -> " + utils.process_name("fooBar", True, trim_leading_underscore=True, handle_pydantic_resrved_field_names=True)})
    rep.assume("plugin_manager is None (no user plugin renames)", "names are ASCII (GraphQL grammar)", "Python identifier rule restricted to ASCII",
               "keyword.kwlist / dir(pydantic.BaseModel) read from the running interpreter")


def replay(data):
    from ariadne_codegen.utils import process_name

    print("names:", data["names"], data["detail"])
    return False
