"""C10 - generation is deterministic and idempotent (E-X with symbolic iteration orders; real hash seeds only in replay)."""
import json
import re

from vlib import gen, xh

LEVEL = "exploration"
MOD = "harness.C10_order"


def seeds_differ(strategy: str, plugins: bool, split: bool, n_seeds: int):
    """replay: the real CLI entry point in fresh interpreters under different PYTHONHASHSEED values; True iff two runs differ"""
    from harness import C10_order as H  # only for the inputs (module import has no side effects besides the import hook in *this* process)

    if split:
        parts = [p for p in H.SDL2.strip().split("\n") if p.strip()]
        schema = [((("sub/" if i % 3 == 0 else "") + f"p{(i * 7) % 23:02d}.graphql"), part + "\n") for i, part in enumerate(parts)]
    else:
        schema = H.SDL2
    if strategy in ("client", "client_custom"):
        cfg = {"include_comments": "none", "include_all_inputs": False, "include_all_enums": False, "plugins": H.PLUGINS if plugins else []}
        if strategy == "client_custom":
            cfg["enable_custom_operations"] = True
        job = {"schema": schema, "queries": H.Q2, "config": cfg}
    else:
        job = {"schema": schema, "strategy": "graphqlschema", "config": {"target_file_path": "out_schema.py" if strategy == "schema_py" else "out_schema.graphql"}}
    import concurrent.futures as cf

    with cf.ThreadPoolExecutor(16) as ex:
        outs = list(ex.map(lambda s: gen.run_subprocess_generation(job, hashseed=s), range(n_seeds)))
    texts = [json.dumps(o.get("files"), sort_keys=True) for o in outs]
    bad = [o for o in outs if not o.get("ok")]
    if bad:
        return None, f"generation failed under a seed: {bad[0].get('exc_msg') or bad[0].get('harness_exc')}"
    distinct = sorted(set(texts))
    if len(distinct) > 1:
        a, b = json.loads(distinct[0]), json.loads(distinct[1])
        files = [f for f in a if a[f] != b.get(f)]
        seeds = [texts.index(distinct[0]), texts.index(distinct[1])]
        return True, {"files": files, "seeds": seeds}
    return False, None


def run(rep, tier):
    import ariadne_codegen.client_generators.fragments as fr
    import ariadne_codegen.client_generators.result_fields as rf
    import ariadne_codegen.client_generators.result_types as rtm
    import ariadne_codegen.schema as sch

    rep.encoded(fr.FragmentsGenerator._get_sorted_fragments_names, fr.FragmentsGenerator.generate, rtm.ResultTypesGenerator._parse_type_definition,
                rtm.ResultTypesGenerator._get_typename_values, rtm.ResultTypesGenerator.get_operation_as_str, rf.generate_typename_annotation,
                sch.load_graphql_files_from_path, sch.walk_graphql_files)
    rep.encoded("ariadne_codegen/contrib/client_forward_refs.py", "ariadne_codegen/contrib/shorter_results.py", "ariadne_codegen/contrib/extract_operations.py")
    from harness import C10_order as H

    parts = xh.write_module("hC10_parts", H.parts_source())
    names = ["client_plain", "client_plugins", "client_custom"] + (["schema_py", "schema_graphql"])
    targets = [f"{parts}.check_fragorder_{a}{b}{c}" for a in "01" for b in "01" for c in "01"] + [f"{MOD}.twin_fragments_order"] + [f"{parts}.check_{n}_s{s}" for n in names for s in range(4)]
    t = 600 if tier == "quick" else 2400
    nb = "3" if tier == "quick" else "4"
    import os
    os.environ["VERIF_C10_BUCKETS"] = nb
    res = xh.run_targets(targets, timeout=t, env_extra={"VERIF_C10_BUCKETS": nb})
    n_seeds = 24 if tier == "quick" else 64
    xp = rep.coverage.setdefault("crosshair_paths", {"conditions": 0, "explored": 0, "confirmed": 0, "by_condition": {}})
    for r in res:
        fn = r.target.rsplit(".", 1)[-1]
        rep.solver_s += r.wall
        xp["conditions"] += 1
        xp["explored"] += r.paths
        xp["confirmed"] += 0 if fn.startswith("twin_") else r.paths_confirmed
        xp["by_condition"][fn] = [r.paths, r.paths_confirmed]
        for k, n in r.hits.items():
            rep.violation({"harness_known": k}, {"module": r.target.rsplit(".", 1)[0], "target": r.target, "hits": n}, f"{fn}: {n} explored paths deviate in the way classified as {k}")
        if fn.startswith("twin_"):
            if r.status != "counterexample":
                rep.harness_error(f"reachability twin {fn} not violated ({r.status})")
            else:
                rep.queries["sat"] += 1
            continue
        if r.status == "confirmed":
            rep.queries["unsat"] += 1
        elif r.status == "counterexample":
            rep.queries["sat"] += 1
            val = xh.replay_call(r.target.rsplit(".", 1)[0], r.call) if r.call else None
            if val is not False:
                rep.harness_error(f"{fn}: counterexample {r.call} does not reproduce with the order oracle ({val})")
                continue
            # a different iteration order changes the output; is it observable with real hash seeds?
            if fn.startswith("check_fragorder"):
                strategy, plugins, split = "client", False, False
            else:
                base = fn.rsplit("_s", 1)[0]
                strategy = {"check_client_plain": "client", "check_client_plugins": "client", "check_client_custom": "client_custom", "check_schema_py": "schema_py", "check_schema_graphql": "schema_graphql"}[base]
                plugins = base == "check_client_plugins"
                m = re.search(r"\(([^)]*)\)", r.call)
                args = [a.strip() for a in m.group(1).split(",")]
                from harness._h import pick
                split = H.SCENARIOS[pick(int(args[1]), len(H.SCENARIOS))][0]
            differ, info = seeds_differ(strategy, plugins, split, n_seeds)
            if differ:
                rep.violation({"harness": fn, "kind": "hash_seed_dependent_output", "files": info["files"]}, {"module": r.target.rsplit(".", 1)[0], "call": r.call, "seeds": info["seeds"], "strategy": strategy, "plugins": plugins, "split": split},
                              f"{fn}: emitted files {info['files']} differ between PYTHONHASHSEED={info['seeds'][0]} and {info['seeds'][1]} (order-oracle counterexample {r.call})")
            elif differ is None:
                rep.harness_error(f"{fn}: seed replay failed: {info}")
            else:
                m = re.search(r"\(([^)]*)\)", r.call or "()")
                rep.violation({"harness": fn, "kind": "order_or_history_dependent_output"}, {"module": r.target.rsplit(".", 1)[0], "call": r.call},
                              f"{fn}: output changes with the iteration order / file order / previous target contents chosen by {r.call}; not reproduced with {n_seeds} real hash seeds")
        elif r.status in ("not_confirmed", "unmet_pre"):
            rep.queries["unknown"] += 1
            rep.note_inconclusive(f"{fn}: CrossHair {r.status} after {r.wall:.0f}s")
        else:
            rep.harness_error(f"{fn}: CrossHair failed: {r.message[-400:]}")
    rep.coverage.update({
        "evaluations": len(res), "distinct_nontrivial": len(res) - 1, "exhaustive": all(r.status in ("confirmed", "counterexample") for r in res),
        "rule": "check_fragments_order: all 64 DAGs on 4 fragments x symbolic ranks (all relative orders) through the real FragmentsGenerator; pipeline conditions: 24 permutations of 4 rank buckets x 4 bucketings x {single file, directory tree} x {fresh, regenerate, regenerate+stale file} x {glob order, reversed} through the real main.client / main.graphql_schema with every set replaced by an order-oracle set",
        "bounds": {"fragments": 4, "rank_buckets": int(nb), "bucketings": 4, "hash_seeds_in_replay": n_seeds},
        "results": [{"target": r.target.rsplit('.', 1)[-1], "status": r.status, "wall_s": round(r.wall, 1)} for r in res],
    })
    rep.sample({"dag": "Aaa -> {Bbb, Ccc}", "ranks": [0, 1, 0, 0], "expected": "same fragments.py text as with insertion order"})
    rep.assume("set iteration order is modelled as an arbitrary total order (rank oracle); which hash seeds realise it is only established in replay",
               "hash-order effects inside isort / black / graphql-core are outside the model", "comment mode 'stable' with the scratch path normalised")


def replay(data):
    if "seeds" in data:
        differ, info = seeds_differ(data["strategy"], data["plugins"], data["split"], max(data["seeds"]) + 1)
        print("seed replay:", differ, info)
        return not differ
    v = xh.replay_call(data["module"], data["call"])
    print("order-oracle replay:", v)
    return v is True
