"""C09 - pruning unused inputs and enums never removes something needed (E-X: symbolic dependency graphs)."""
from vlib import xh

LEVEL = "exploration"
MOD = "harness.C09_pruning"


def run(rep, tier):
    from ariadne_codegen.client_generators.enums import EnumsGenerator
    from ariadne_codegen.client_generators.input_types import InputTypesGenerator as I
    from ariadne_codegen.client_generators.package import PackageGenerator as P

    rep.encoded(I._get_dependencies_of_type, I._filter_class_defs, I.get_used_enums, I._save_dependencies, EnumsGenerator._filter_class_defs,
                P.generate, P._generate_input_types, P._generate_enums, P.add_operation, P._generate_fragments)
    from harness import C09_pruning as H

    parts = xh.write_module("hC09_parts", H.parts_source(tier == "quick"))
    targets = [f"{parts}.check_prune_p{i}" for i in range(16)] + [f"{MOD}.check_dfs_kernel3", f"{MOD}.twin_transitive_enum_reached"]
    if tier != "quick":
        k4 = xh.write_module("hC09_kernel4", H.kernel4_source())
        targets += [f"{k4}.check_dfs_kernel4_p{i}" for i in range(16)]
    res = xh.run_targets(targets, timeout=600 if tier == "quick" else 3000)
    xh.fold(rep, parts, [r for r in res if r.target.startswith(parts)])
    xh.fold(rep, MOD, [r for r in res if r.target.startswith(MOD)])
    xh.fold(rep, "hC09_kernel4", [r for r in res if r.target.startswith("hC09_kernel4")])
    rep.coverage.update({
        "evaluations": len(res), "distinct_nontrivial": len(res) - 1, "exhaustive": all(r.status in ("confirmed", "counterexample") for r in res),
        "rule": "kernel: the real DFS closure on every directed graph on 3 input types incl. self loops (quick) / 4 input types (thorough, 14 symbolic edge bits, partitioned) equals an independent transitive closure. pipeline: symbolic bits choose input->input edges (chain, cycle, self loop, list edge), enum uses in input fields/defaults, variable types, result-field enum, fragment-only nested enum and the two flags; the pruned package must contain exactly the independent closure, retained classes must be textually identical to the unpruned run, all other modules identical, and the pruned package must import",
        "bounds": {"inputs": 4, "enums": 5, "pipeline_bits": 6 if tier == "quick" else 10},
        "results": [{"target": r.target.rsplit('.', 1)[-1], "status": r.status, "wall_s": round(r.wall, 1)} for r in res],
    })
    rep.sample({"edges": "A->B, B->C, C->A, C->[D]", "variables": ["$a: A"], "expected_inputs": ["A", "B", "C", "D"], "expected_enums": "those of retained inputs + result fields + fragments"})
    rep.assume("enums can only be referenced through enum-typed fields (a default literal needs such a field)", "quick tier ties some bits together (stated in the generated harness source)")


def replay(data):
    v = xh.replay_call(data["module"], data["call"])
    print("concrete replay:", v)
    return v is True
