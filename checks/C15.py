"""C15 - bundled plugins preserve client behaviour apart from their documented change (E-X over plugin subsets/orders)."""
from vlib import xh

LEVEL = "exploration"
MOD = "harness.C15_plugins"


def run(rep, tier):
    from ariadne_codegen.plugins.manager import PluginManager

    rep.encoded(PluginManager._apply_plugins_on_object)
    for f in ("shorter_results", "extract_operations", "client_forward_refs", "no_reimports"):
        rep.encoded(f"ariadne_codegen/contrib/{f}.py")
    import os

    env = {"VERIF_C15_THOROUGH": "0" if tier == "quick" else "1"}
    os.environ.update(env)
    from harness import C15_plugins as H

    parts = xh.write_module("hC15_parts", H.parts_source(16))
    targets = [f"{parts}.check_plugins_p{i}" for i in range(16)] + [f"{MOD}.check_hook_order", f"{MOD}.twin_all_plugins_ok"]
    res = xh.run_targets(targets, timeout=900 if tier == "quick" else 3000, env_extra=env)
    xh.fold(rep, parts, [r for r in res if r.target.startswith(parts)])
    xh.fold(rep, MOD, [r for r in res if r.target.startswith(MOD)])
    rep.coverage.update({
        "evaluations": len(res), "distinct_nontrivial": len(res) - 1, "exhaustive": all(r.status in ("confirmed", "counterexample") for r in res),
        "rule": f"{len(H.ORDERS)} ordered plugin selections (all ordered selections of <=3 of the 5 plugins {{ShorterResults, ExtractOperations, ClientForwardRefs, NoReimports, identity}} plus all five in both orders) x sync/async, each generated in a fresh interpreter from a package with 12 operations (incl. root-level nested fragments) (single/many top-level fields, union, fragment, list, custom scalar, scalar result, mutation with arguments, subscription); oracle: package imports; result/enum/input/fragment modules byte-identical; every method sends the same (parsed) query, operationName and variables and returns the same validated value, except ShorterResults = exactly the single top-level field; NoReimports only empties __init__; identity plugin changes no byte; two marker plugins are applied in configuration order",
        "bounds": {"ordered_selections": len(H.ORDERS), "operations": 12},
        "results": [{"target": r.target.rsplit('.', 1)[-1], "status": r.status, "wall_s": round(r.wall, 1)} for r in res],
    })
    rep.sample({"plugins": ["ShorterResults", "ExtractOperations", "ClientForwardRefs", "NoReimports", "identity"], "operation": "One", "expected_return": "One.model_validate(data).user"})
    rep.assume("transport stubbed; canned conformant payload per operation", "quick tier: ordered selections of 4 plugins are not enumerated (5 of 5 in two orders are); the thorough tier enumerates all 326 ordered selections")


def replay(data):
    v = xh.replay_call(data["module"], data["call"])
    print("concrete replay:", v)
    return v is True
