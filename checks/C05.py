"""C05 - result models are as strict as the schema (E-Z: single-point corruptions must be rejected)."""
from vlib import ezrun, gen, ezcheck, boot, xh

LEVEL = "translation_validation"


def run(rep, tier):
    import ariadne_codegen.client_generators.result_fields as rf
    import ariadne_codegen.client_generators.result_types as rtm

    rep.encoded(rtm.ResultTypesGenerator._parse_type_definition, rtm.ResultTypesGenerator._get_typename_values,
                rf.parse_operation_field, rf.parse_operation_field_type, rf.parse_scalar_type, rf.parse_list_type,
                rf.parse_directives, rf.generate_typename_annotation)
    # second sentence of the property: declared type == image of the GraphQL type (E-X lemma on the real parse_operation_field), started first
    import concurrent.futures as cf

    pool = cf.ThreadPoolExecutor(1)
    fut = pool.submit(xh.run_targets, ["harness.C05_image.check_image", "harness.C05_image.twin_nested_list_reached"], 600 if tier == "quick" else 1800)
    jobs = [j for j in ezrun.corpus_jobs(tier, boot.seed()) if j.get("only_for") in (None, "C05")]
    for j in jobs:
        j["modes"] = ["strict"]
        j["known"] = rep._known
    results = gen.pmap(ezcheck.analyze, jobs)
    def not_analysable(job, r):
        # every package of this corpus generates and loads on the unchanged tree; one that does not cannot be judged and is reported
        why = (r["gen"] or {}).get("exc_msg") if not (r["gen"] or {}).get("ok") else str({k: v for k, v in (r.get("import") or {}).get("modules", {}).items() if v != "ok"})[:200]
        rep.violation(ezrun.classify_unanalysable(job, r), {"schema": job["schema"], "queries": job["queries"], "config": job.get("config") or {}, "q": "package"},
                      f"a package of the corpus does not generate / load, its models cannot be judged: {why}")

    progs, ops, nodes, gen_fail = ezrun.fold(rep, results, jobs, {"strict"}, not_analysable)
    xres = fut.result()
    xh.fold(rep, "harness.C05_image", xres)
    rep.coverage["image_lemma"] = [{"target": r.target.rsplit(".", 1)[-1], "status": r.status, "wall_s": round(r.wall, 1)} for r in xres]
    rep.coverage.update({
        "programs": progs, "operations": ops, "skeleton_nodes": nodes, "packages_not_analysed": gen_fail,
        "corruption_holes": sum(r["stats"]["holes"] for r in results),
        "disagreements_checked": sum(len(r["findings"]) for r in results),
        "bounds": {"list_len": "0..2", "corpus": f"abstract family + wrapper stacks, tier={tier}",
                   "corruptions": "null at non-null unconditional position; unconditional key removed; value of another JSON kind; __typename not a possible type"},
        "explanation": "per operation and per (position, corruption class): z3 unsat of (Conf-with-one-hole & live & Acc)",
    })
    rep.assume("exactly one corruption; the rest of the payload is conformant for the same runtime types",
               "an integral float (2.0) for Int is the same JSON kind (number) and not counted as a corruption",
               "replay: real pydantic accepts AND graphql-core execute() cannot return the payload",
               "image lemma: CrossHair over 11 named kinds x wrapper stacks of depth <= 4 x {no directive, @skip, @include} on the real parse_operation_field; expected annotation written independently from the statement")


def replay(data):
    from checks import ez_replay
    return ez_replay.replay(data)
