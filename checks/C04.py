"""C04 - every valid input generates, and what is generated loads (E-X configuration product + name stress; E-S names via C18)."""
from vlib import xh

LEVEL = "exploration"
MOD = "harness.C04_generates"


def run(rep, tier):
    from ariadne_codegen.client_generators.init_file import InitFileGenerator
    from ariadne_codegen.client_generators.package import PackageGenerator as P
    from ariadne_codegen import codegen, utils

    rep.encoded(P.generate, P._validate_unique_file_names, P.add_operation, P._generate_client, P._generate_init, P._copy_files, InitFileGenerator.generate,
                codegen.model_has_forward_refs, utils.ast_to_str, utils.process_name)
    import os

    env = {"VERIF_C04_QUICK": "1" if tier == "quick" else "0"}
    os.environ.update(env)
    from harness import C04_generates as H

    parts = xh.write_module("hC04_parts", H.parts_source())
    nparts = xh.write_module("hC04_names", H.names_parts_source(16))
    targets = [f"{parts}.check_gen_{ii}_{a}{c}" for ii in range(len(H.INPUTS)) for a in "01" for c in "01"]
    targets += [f"{nparts}.check_names_p{p}" for p in range(16)]
    targets.append(f"{MOD}.twin_documented_refusal_reached")
    res = xh.run_targets(targets, timeout=900 if tier == "quick" else 3000, env_extra=env)
    xh.fold(rep, parts, [r for r in res if r.target.startswith(parts)])
    xh.fold(rep, nparts, [r for r in res if r.target.startswith(nparts)])
    xh.fold(rep, MOD, [r for r in res if r.target.startswith(MOD)])
    rep.coverage.update({
        "evaluations": len(res), "distinct_nontrivial": len(res), "exhaustive": all(r.status in ("confirmed", "counterexample") for r in res),
        "rule": f"{len(H.INPUTS)} construct-covering inputs (abstract selections+fragments, wrapper stacks, input wrappers/defaults/recursion/name stress, custom roots + interfaces implementing interfaces + subscriptions, custom scalars + mixins + files_to_include, Upload) x symbolic configuration (snake, async, OpenTelemetry, include_all_inputs, include_all_enums, custom operations, 3 comment modes, custom module/class names = 384 combinations each); {len(H.NAME_CASES)} name-stress schemas x snake on/off (keywords, pydantic/Enum-reserved names, names of imported symbols as type/enum/input/fragment/variable/operation names). Oracle: generation succeeds or is a documented refusal; every file compiles; the package and every module import in a clean module namespace with all pydantic models complete; __all__ == names re-exported by __init__; reported file list == files written",
        "bounds": {"inputs": len(H.INPUTS), "config_combinations": 16 * 4 if tier == "quick" else 384, "name_cases": len(H.NAME_CASES)},
        "results": [{"target": r.target.rsplit('.', 1)[-1], "status": r.status, "wall_s": round(r.wall, 1)} for r in res],
    })
    rep.sample({"input": "roots", "config": {"async_client": False}, "expected": "documented refusal: subscriptions need the async client"})
    rep.assume("'all valid schemas' is bounded by the listed inputs; user-written plugins excluded", "identifier laws for all names up to a length bound are decided in C18")


def replay(data):
    v = xh.replay_call(data["module"], data["call"])
    print("concrete replay:", v)
    return v is True
