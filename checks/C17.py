"""C17 - invalid input is rejected up front, with a typed error and no side effects (E-S name law + E-X constraint product)."""
import time

import z3

from vlib import boot, bstr, xh
from vlib.pyast2smt import Evaluator, UnsupportedConstruct, raises_cond

LEVEL = "other"
MOD = "harness.C17_invalid"


def identifier_law(rep, N):
    """assert_string_is_valid_python_identifier raises  <=>  not (ASCII identifier and not keyword), for all printable ASCII strings <= N"""
    import keyword

    from ariadne_codegen import settings

    fn = settings.assert_string_is_valid_python_identifier
    rep.encoded(fn)
    x = bstr.mk("x", N)
    try:
        rets = Evaluator(fn).call(x)
    except (UnsupportedConstruct, NotImplementedError) as e:
        raise boot.HarnessError(f"assert_string_is_valid_python_identifier uses a construct outside the translated subset: {e}")
    raises = raises_cond(rets)
    raises = raises if isinstance(raises, z3.BoolRef) else z3.BoolVal(bool(raises))
    good = z3.And(bstr.is_ascii_identifier(x), z3.Not(bstr.in_list(x, keyword.kwlist)))
    base = bstr.wf(x, bstr.ascii_printable)
    # translator validation against the real function
    import random

    rnd = random.Random(boot.seed())
    samples = ["", "a", "class", "None", "a-b", "1a", "_x", "my pkg", "if", "x1", "é"[:0] + "ok_name", "import", "a.b"]
    alpha = "ab_1 -.iIfnN"
    samples += ["".join(rnd.choice(alpha) for _ in range(rnd.randint(0, N))) for _ in range(150)]
    s = z3.Solver()
    s.add(base)
    for nm in samples:
        if len(nm) > N:
            continue
        s.push()
        s.add(bstr.eq_const(x, nm))
        assert str(s.check()) == "sat"
        enc = z3.is_true(s.model().eval(raises, model_completion=True))
        s.pop()
        try:
            fn(nm)
            real = False
        except Exception:
            real = True
        if enc != real:
            raise boot.HarnessError(f"encoding of assert_string_is_valid_python_identifier disagrees with the real function on {nm!r}")
    for label, bad in (("accepts a name that is not a usable identifier", z3.And(z3.Not(raises), z3.Not(good))), ("rejects a usable identifier", z3.And(raises, good))):
        sol = z3.Solver()
        sol.set("timeout", 120000)
        sol.add(base, bad)
        t0 = time.time()
        r = str(sol.check())
        rep.q(r, time.time() - t0)
        if r == "sat":
            nm = bstr.show(sol.model(), x)
            try:
                fn(nm)
                real_raises = False
            except Exception:
                real_raises = True
            real_good = nm.isidentifier() and not keyword.iskeyword(nm)
            if real_raises == (not real_good):
                raise boot.HarnessError(f"identifier law witness {nm!r} does not reproduce on the real function")
            rep.violation({"law": "identifier_setting", "kind": label, "keyword": keyword.iskeyword(nm)}, {"name": nm}, f"assert_string_is_valid_python_identifier {label}: {nm!r}")
        elif r != "unsat":
            rep.note_inconclusive(f"identifier law: solver {r}")


def run(rep, tier):
    from ariadne_codegen import config, main, schema, settings

    rep.encoded(settings.ClientSettings.__post_init__, settings.BaseSettings.__post_init__, settings.GraphQLSchemaSettings.__post_init__,
                settings.assert_string_is_valid_schema_target_filename, settings.get_header_value, config.get_client_settings, config.get_section,
                schema.read_graphql_file, schema.get_graphql_queries, main.client)
    N = 6 if tier == "quick" else 9
    identifier_law(rep, N)
    fns = ["check_config_violations", "check_config_violations_custom_ops", "check_config_violations_sync_plain", "check_config_violations_otel_pruned",
           "check_config_violations_plugin", "check_config_violations_custom_ops_sync", "check_invalid_operations", "check_invalid_schemas", "check_valid_configs", "check_valid_configs_legacy_section", "check_schema_strategy_target", "check_schema_strategy_names", "twin_invalid_operation_rejected"]
    res = xh.run_targets([f"{MOD}.{f}" for f in fns], timeout=600 if tier == "quick" else 1800)
    xh.fold(rep, MOD, res)
    from harness import C17_invalid as H
    from graphql import build_schema, parse, specified_rules, validate

    sch = build_schema(H.SDL)
    fired = set()
    for _n, q in H.INVALID_OPS:
        for rule in specified_rules:
            try:
                if validate(sch, parse(q), [rule]):
                    fired.add(rule.__name__)
            except Exception:  # noqa: BLE001
                pass
    uncovered = sorted(r.__name__ for r in specified_rules if r.__name__ not in fired)
    rep.coverage.update({
        "explanation": f"E-S: assert_string_is_valid_python_identifier translated from source; 'raises <=> not (ASCII identifier and not keyword)' decided by z3 for all printable-ASCII strings of length <= {N}. E-X: {len(H.VIOLATIONS)} single-constraint violations x 3 pre-existing target states, {len(H.INVALID_OPS)} invalid operations (graphql-core specified rules fired: {len(fired)}/{len(specified_rules)}; not exercised: {uncovered}), {len(H.INVALID_SCHEMAS)} invalid schemas, {len(H.VALID_CONFIGS)} valid configurations, 7 schema-strategy targets; expected: the documented ariadne-codegen exception, target tree unchanged / not created, config dict not mutated",
        "evaluations": len(res) + 2, "distinct_nontrivial": len(res) + 1, "obligations": len(res) + 2,
        "specified_rules_not_exercised": uncovered,
        "results": [{"target": r.target.rsplit('.', 1)[-1], "status": r.status, "wall_s": round(r.wall, 1)} for r in res],
    })
    rep.sample({"violation": "fragments_module_name = 'frag.ments'", "expected": "InvalidConfiguration, target untouched"})
    rep.assume("configured names are printable ASCII (the identifier law); non-ASCII identifiers are outside the bound", "one minimal input per violation class")


def replay(data):
    if "call" in data:
        v = xh.replay_call(data["module"], data["call"])
        print("concrete replay:", v)
        return v is True
    from ariadne_codegen.settings import assert_string_is_valid_python_identifier as f
    import keyword

    nm = data["name"]
    try:
        f(nm)
        raised = False
    except Exception:
        raised = True
    good = nm.isidentifier() and not keyword.iskeyword(nm)
    print(nm, "raised" if raised else "accepted", "good" if good else "bad")
    return raised == (not good)
