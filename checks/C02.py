"""C02 - the document sent is the document written (E-X over literal contents / fragment graphs, graphql-core as oracle)."""
import os

from vlib import xh

LEVEL = "exploration"
MOD = "harness.C02_document"


def run(rep, tier):
    from ariadne_codegen import utils
    from ariadne_codegen.client_generators.client import ClientGenerator
    from ariadne_codegen.client_generators.result_types import ResultTypesGenerator as R

    rep.encoded(R.get_operation_as_str, R._get_all_related_fragments, R._get_fragments_names, R._get_node_without_mixin_directive, R._add_typename_field_to_selections,
                ClientGenerator._generate_operation_str_assign if hasattr(ClientGenerator, "_generate_operation_str_assign") else ClientGenerator.add_method,
                utils.format_multiline_strings, utils.convert_to_multiline_string, utils.get_variable_indent_size, utils.ast_to_str)
    rep.encoded("ariadne_codegen/contrib/extract_operations.py")
    nsym = "2" if tier == "quick" else "3"
    env = {"VERIF_C02_SYMS": nsym, "VERIF_C02_THOROUGH": "0" if tier == "quick" else "1"}
    os.environ.update(env)
    from harness import C02_document as H

    parts = xh.write_module("hC02_parts", H.parts_source())
    targets = [f"{parts}.check_literal_first{i}" for i in range(H.NS)] + [f"{parts}.check_literal_empty"] + [f"{parts}.check_packages_p{i}" for i in range(4)]
    res = xh.run_targets(targets + [f"{MOD}.twin_two_symbols_reached"], timeout=900 if tier == "quick" else 5400, env_extra=env)
    xh.fold(rep, parts, [r for r in res if r.target.startswith(parts)])
    xh.fold(rep, MOD, [r for r in res if r.target.startswith(MOD)])
    rep.coverage.update({
        "evaluations": len(res), "distinct_nontrivial": len(res) - 1, "exhaustive": all(r.status in ("confirmed", "counterexample") for r in res),
        "rule": f"string literal = sequence of <= {nsym} symbols over {len(H.SYMS)} lexical classes (letter, ', \", backslash, n, #, =, space, LF escape, U+2028, brace, $, comma) x normal/block string x 3 positions (argument, variable default, directive argument) x ExtractOperations on/off; plus {len(H.PJOBS)} fragment-graph / @mixin packages x plugin on/off; sent text read back by running the emitted client with a stub transport; oracle: graphql-core parse + validate(full specified rules, user's schema) + AST comparison after undoing automatic __typename (abstract selections only) and @mixin removal",
        "bounds": {"symbols": int(nsym), "alphabet": [repr(x) for x in H.SYMS], "packages": len(H.PJOBS)},
        "results": [{"target": r.target.rsplit('.', 1)[-1], "status": r.status, "wall_s": round(r.wall, 1)} for r in res],
    })
    rep.sample({"literal_symbols": ["#", "="], "position": "argument", "authored": 'query Lit { echo(s: "#=") other }', "expected": "identical document, operationName Lit"})
    rep.assume("literals longer than the bound and characters outside the alphabet are outside the claim (path-by-path exploration, not an algebraic proof over strings)",
               "fragment order in the sent document is not significant")


def replay(data):
    v = xh.replay_call(data["module"], data["call"])
    print("concrete replay:", v)
    return v is True
