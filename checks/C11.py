"""C11 - requests are well-formed, uploads follow the multipart spec, the four base clients agree (E-X on the real clients)."""
from vlib import xh

LEVEL = "exploration"
MOD = "harness.C11_requests"


def run(rep, tier):
    from ariadne_codegen.client_generators.dependencies import async_base_client as a, async_base_client_open_telemetry as ao, base_client as s, base_client_open_telemetry as so
    from harness import C11_requests as H

    for cls in (s.BaseClient, a.AsyncBaseClient, so.BaseClientOpenTelemetry, ao.AsyncBaseClientOpenTelemetry):
        rep.encoded(cls.execute, cls._process_variables, cls._convert_dict_to_json_serializable, cls._convert_value, cls._get_files_from_variables,
                    cls._execute_json, cls._execute_multipart)
    parts = xh.write_module("hC11_parts", H.parts_source())
    targets = [f"{parts}.check_{name}" for name, *_ in H.CLIENTS] + [f"{parts}.check_kwargs_{name}" for name, *_ in H.CLIENTS]
    extra = [f"{MOD}.check_empty_variables", f"{MOD}.check_anonymous_operation", f"{MOD}.check_interleaving", f"{MOD}.check_call_history", f"{MOD}.twin_shared_upload_reached"]
    t = 600 if tier == "quick" else 3000
    res = xh.run_targets(targets + extra, timeout=t)
    xh.fold(rep, parts, [r for r in res if r.target.startswith(parts)])
    xh.fold(rep, MOD, [r for r in res if r.target.startswith(MOD)])
    rep.coverage.update({
        "evaluations": len(res), "distinct_nontrivial": len(res) - 1, "exhaustive": all(r.status in ("confirmed", "counterexample") for r in res),
        "rule": "one CrossHair condition per base client flavour (4 clients + 2 with tracer stub); symbolic: kind of variable a (8 leaf kinds incl. two Uploads, enum, models with alias/unset/nested Upload; list/dict of <=2 leaves), second variable (6 shapes incl. shared Upload, UNSET), kwargs (4 shapes); plus interleaving schedules (4) of two concurrent async calls and two-call histories (kwargs of the first call x kwargs of the second x same/other instance x upload first) whose second request must be history-free",
        "bounds": {"tree_depth": 2, "container_size": "<= 2", "uploads": "2 distinct objects, shared references"},
        "results": [{"target": r.target.rsplit('.', 1)[-1], "status": r.status, "wall_s": round(r.wall, 1)} for r in res],
    })
    rep.sample({"variables": {"a": ["<Upload A>", 1], "b": ["<Upload B>", "<Upload A>"]}, "expected_map": {"0": ["variables.a.0", "variables.b.1"], "1": ["variables.b.0"]}})
    rep.assume("httpx client replaced by a recorder of post(**kwargs); the actual multipart encoding is httpx's job",
               "UNSET only at top level and inside generated models (where the generated code puts it)",
               "thread-level interleavings of the synchronous clients are not explored (DESIGN section 8)",
               "OpenTelemetry API stubbed (tracer, spans, set_span_in_context)")


def replay(data):
    v = xh.replay_call(data["module"], data["call"])
    print("concrete replay:", v)
    return v is True
