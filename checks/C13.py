"""C13 - subscriptions follow graphql-transport-ws for every frame sequence (bounded model checking of the real coroutine)."""
from vlib import xh

LEVEL = "model_checking"
MOD = "harness.C13_ws"


def run(rep, tier):
    import os

    from ariadne_codegen.client_generators.dependencies import async_base_client as p, async_base_client_open_telemetry as o

    rep.encoded(p.AsyncBaseClient.execute_ws, p.AsyncBaseClient._send_connection_init, p.AsyncBaseClient._send_subscribe, p.AsyncBaseClient._handle_ws_message,
                o.AsyncBaseClientOpenTelemetry.execute_ws, o.AsyncBaseClientOpenTelemetry._execute_ws, o.AsyncBaseClientOpenTelemetry._execute_ws_with_telemetry,
                o.AsyncBaseClientOpenTelemetry._handle_ws_message_with_telemetry, o.AsyncBaseClientOpenTelemetry._send_subscribe_with_telemetry)
    from ariadne_codegen.client_generators.client import ClientGenerator

    rep.encoded(ClientGenerator.add_method, ClientGenerator._generate_async_generator_loop, ClientGenerator.get_variable_names)
    nmax = 4 if tier == "quick" else 6
    os.environ["VERIF_WS_FRAMES"] = str(nmax)
    from harness import C13_ws as H

    parts = xh.write_module("hC13_parts", H.parts_source())
    targets = []
    for v in H.VARIANTS:
        targets += [f"{parts}.check_frames_{v}_p{j}" for j in range(H.NK_EXT)]
        targets.append(f"{parts}.check_vars_{v}")
    twin = [f"{MOD}.twin_two_yields_then_error", f"{MOD}.check_ws_history", f"{MOD}.check_ws_constructed_client"]
    MODM = "harness.C13_method"
    twin += [f"{MODM}.check_generated_subscription_snake", f"{MODM}.check_generated_subscription_plain", f"{MODM}.twin_generated_clash_two_payloads", f"{MODM}.check_real_server_handshake"]
    t = 300 if tier == "quick" else 2400
    res = xh.run_targets(targets + twin, timeout=t, env_extra={"VERIF_WS_FRAMES": str(nmax)})
    xh.fold(rep, parts, [r for r in res if r.target.startswith(parts)])
    xh.fold(rep, MOD, [r for r in res if r.target.startswith(MOD + ".")])
    xh.fold(rep, MODM, [r for r in res if r.target.startswith(MODM + ".")])
    confirmed = sum(1 for r in res if r.status == "confirmed")
    rep.coverage.update({
        "states": confirmed * 4, "transitions": confirmed * H.NK, "traces_validated_against_impl": confirmed,
        "evaluations": len(targets), "distinct_nontrivial": len(targets), "exhaustive": all(r.status in ("confirmed", "counterexample") for r in res),
        "bounds": {"frames": f"<= {nmax}", "frame_kinds": H.NK, "variants": list(H.VARIANTS), "variables": "4 shapes (None, plain, UNSET member, models)", "init_payload": "set/unset"},
        "explanation": "CrossHair explores every server frame sequence up to the bound (kinds drawn lazily from symbolic ints) against a reference automaton; states/transitions are conditions confirmed x automaton size (CrossHair does not report path counts)",
        "results": [{"target": r.target.rsplit('.', 1)[-1], "status": r.status, "wall_s": round(r.wall, 1)} for r in res],
    })
    rep.sample({"frames": ["connection_ack", "next", "ping", "complete"], "expected": {"sent": ["connection_init", "subscribe", "pong"], "yielded": [{"a": 1}], "error": None}})
    rep.assume("frame handling is explored with variables=None/no init payload; variable serialisation and init payload are explored with a fixed frame sequence (independence of the two is assumed)",
               "websockets library replaced by an in-memory fake connection (recv / async iteration / close)",
               "history: two subscriptions on one client (extra_headers on the first / second / both) must open connections with exactly their own headers and leave the configured ws_headers untouched",
               "the handshake clause is exercised against a real websockets server (installed version) on the loopback interface, plain and OpenTelemetry client, with and without configured headers; where no loopback socket can be bound the path passes without a verdict",
               "generated subscription methods (snake on/off; variables named query/variables/operationName/data/response, an input model): execute_ws stubbed, the kwargs it receives and the yielded models are judged",
               "OpenTelemetry tracer replaced by a no-op stub")


def replay(data):
    v = xh.replay_call(data["module"], data["call"])
    print("concrete replay:", v)
    return v is True
