"""C03 - method arguments arrive at the server as the declared variables (E-X on generated methods + real base clients)."""
from vlib import xh

LEVEL = "exploration"
MOD = "harness.C03_variables"


def run(rep, tier):
    from ariadne_codegen.client_generators.arguments import ArgumentsGenerator
    from ariadne_codegen.client_generators.client import ClientGenerator
    from ariadne_codegen.client_generators.dependencies.async_base_client import AsyncBaseClient
    from ariadne_codegen.client_generators.dependencies.base_client import BaseClient

    rep.encoded(ArgumentsGenerator.generate, ArgumentsGenerator._parse_type_node, ArgumentsGenerator._parse_named_type_node, ArgumentsGenerator._get_dict_value,
                ClientGenerator.add_method, BaseClient._process_variables, BaseClient._convert_dict_to_json_serializable, BaseClient._convert_value,
                AsyncBaseClient._process_variables, AsyncBaseClient._convert_value)
    targets = [f"{MOD}.{f}" for f in ("check_sync_snake", "check_sync_plain", "check_async_snake", "check_async_plain", "twin_nested_model_sent")]
    res = xh.run_targets(targets, timeout=600 if tier == "quick" else 2400)
    xh.fold(rep, MOD, res)
    rep.coverage.update({
        "evaluations": len(res), "distinct_nontrivial": len(res) - 1, "exhaustive": all(r.status in ("confirmed", "counterexample") for r in res),
        "rule": "per client flavour (sync/async x snake on/off): CrossHair chooses the operation (6) and the caller's intent per variable (omit / None / 1-4 values incl. input models built by field name, by alias, nested, empty); the JSON posted by the real generated method through the real base client must equal the intent under GraphQL names and pass graphql-core get_variable_values",
        "bounds": {"operations": 6, "variables_per_operation": 3, "values_per_variable": "<= 6 states", "input_nesting": 2},
        "results": [{"target": r.target.rsplit('.', 1)[-1], "status": r.status, "wall_s": round(r.wall, 1)} for r in res],
    })
    rep.sample({"operation": "V2", "intent": {"f": "Filter(b=[Filter(c=Color.RED)], c=None)", "e": "omit", "fs": "[]"}, "expected_variables": {"f": {"b": [{"c": "RED"}], "c": None}, "fs": []}})
    rep.assume("http client replaced by a recorder; get_data stubbed", "argument values are the ones the generated signature asks for (no plain dicts)",
               "names clashing with method locals are covered by C18/C04, not here")


def replay(data):
    v = xh.replay_call(data["module"], data["call"])
    print("concrete replay:", v)
    return v is True
