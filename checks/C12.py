"""C12 - every HTTP response is classified into exactly one documented outcome (E-X on the real get_data x4 + generated method)."""
from vlib import xh

LEVEL = "exploration"
MOD1, MOD2 = "harness.C12_get_data", "harness.C12_method"


def run(rep, tier):
    from ariadne_codegen.client_generators.dependencies import exceptions as X
    from ariadne_codegen.client_generators.dependencies.async_base_client import AsyncBaseClient
    from ariadne_codegen.client_generators.dependencies.async_base_client_open_telemetry import AsyncBaseClientOpenTelemetry
    from ariadne_codegen.client_generators.dependencies.base_client import BaseClient
    from ariadne_codegen.client_generators.dependencies.base_client_open_telemetry import BaseClientOpenTelemetry
    from ariadne_codegen.client_generators.client import ClientGenerator

    rep.encoded(BaseClient.get_data, AsyncBaseClient.get_data, BaseClientOpenTelemetry.get_data, AsyncBaseClientOpenTelemetry.get_data,
                X.GraphQLClientGraphQLMultiError.from_errors_dicts, X.GraphQLClientGraphQLError.from_dict, ClientGenerator.add_method)
    t = 120 if tier == "quick" else 600
    targets = [f"{MOD1}.{f}" for f in ("check_base", "check_async", "check_base_otel", "check_async_otel", "twin_multi_reached")]
    targets += [f"{MOD2}.{f}" for f in ("check_sync", "check_async", "check_sync_clash", "check_async_clash", "check_real_transport_status", "twin_ok_reached")]
    res = xh.run_targets(targets, timeout=t)
    xh.fold(rep, MOD1, [r for r in res if r.target.startswith(MOD1)])
    xh.fold(rep, MOD2, [r for r in res if r.target.startswith(MOD2)])
    n = len(targets)
    rep.coverage.update({
        "evaluations": n, "distinct_nontrivial": n - 2, "exhaustive": all(r.status in ("confirmed", "counterexample") for r in res),
        "rule": "one CrossHair condition per base client / generated client flavour; symbolic: status (int 100..599), json-ok flag, body class (5), data class (3), errors class (absent/null/[]/1/2 errors x 4 member shapes each), extra keys; a condition is non-trivial when it explores all decision paths of get_data",
        "bounds": {"status": "100..599 symbolic int", "errors": "<= 2 spec-shaped errors", "body_classes": 5},
        "results": [{"target": r.target, "status": r.status, "wall_s": round(r.wall, 1)} for r in res],
    })
    rep.sample({"harness": "check_base", "symbolic": "status:int, json_ok:bool, kind, has_data, data_kind, has_errors, n_err, e0, e1, extra", "verdict": res[0].status})
    rep.assume("errors member, when present, is spec-shaped (property precondition)", "httpx.Response replaced by a stub exposing status_code/is_success/json()",
               "generated method driven without an event loop; execute() stubbed to return the response")


def replay(data):
    v = xh.replay_call(data["module"], data["call"])
    print("concrete replay:", v)
    return v is True
