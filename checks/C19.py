"""C19 - the schema source does not change the generated client (E-X: file partitions, introspection responses)."""
from vlib import xh

LEVEL = "exploration"
MOD = "harness.C19_sources"


def run(rep, tier):
    from ariadne_codegen import schema as sch
    from ariadne_codegen import settings as st
    from ariadne_codegen.client_generators.input_fields import parse_input_field_default_value

    rep.encoded(sch.load_graphql_files_from_path, sch.walk_graphql_files, sch.read_graphql_file, sch.introspect_remote_schema, sch.get_graphql_schema_from_url,
                sch.get_graphql_schema_from_path, st.resolve_headers, st.get_header_value, parse_input_field_default_value)
    nloc = "3" if tier == "quick" else "5"
    env = {"VERIF_C19_LOCS": nloc}
    import os

    os.environ.update(env)
    from harness import C19_sources as H

    parts = xh.write_module("hC19_parts", H.parts_source())
    n = int(nloc)
    targets = [f"{parts}.check_split_{a}{b}" for a in range(n) for b in range(n)]
    targets += [f"{MOD}.{f}" for f in ("check_introspection_equals_sdl", "check_introspection_failures", "check_introspection_status_symbolic", "check_malformed_introspection_data", "check_headers_env", "twin_introspection_valid_reached")]
    res = xh.run_targets(targets, timeout=600 if tier == "quick" else 3000, env_extra=env)
    xh.fold(rep, parts, [r for r in res if r.target.startswith(parts)])
    xh.fold(rep, MOD, [r for r in res if r.target.startswith(MOD)])
    rep.coverage.update({
        "evaluations": len(res), "distinct_nontrivial": len(res) - 1, "exhaustive": all(r.status in ("confirmed", "counterexample") for r in res),
        "rule": f"every assignment of 6 schema definitions to {nloc} files (mixed .graphql/.graphqls/.gql, sub-directories) generated through the real pipeline and compared, as sets of class definitions per module plus the client module text, with the single-file source; SDL vs introspected source (stub endpoint executing the real introspection query); real introspect_remote_schema with the status code as a symbolic int 100..599 (valid body; rendering of the code in the message stubbed) and under 7 boundary status codes x JSON-ok x 12 body classes x InvalidURL x verify flag must raise IntrospectionError unless the response is a valid one, and must post the given headers / verify flag; $ENV header substitution",
        "bounds": {"definitions": 6, "files": int(nloc), "body_classes": len(H.BODIES)},
        "results": [{"target": r.target.rsplit('.', 1)[-1], "status": r.status, "wall_s": round(r.wall, 1)} for r in res],
    })
    rep.sample({"split": {"a.graphql": ["Query", "union Thing"], "b.graphqls": ["interface Node", "enum Color"], "sub/c.gql": ["User, Bot", "input Filter"]}, "expected": "same class sets as the single file"})
    rep.assume("httpx.post replaced by a stub (no network in the sandbox)", "transport errors other than httpx.InvalidURL are not part of the explored space")


def replay(data):
    v = xh.replay_call(data["module"], data["call"])
    print("concrete replay:", v)
    return v is True
