"""Replay of an E-Z counterexample file on the real code only (real generator, real pydantic, graphql-core)."""
from vlib import gen


def _child(job):
    from vlib import ezcheck, replay as rp
    from vlib.extract import Package

    res = gen.generate(job)
    if not res["ok"]:
        return {"gen_failed": res["exc_msg"]}
    rt = ezcheck.PkgRuntime(res["files"])
    try:
        pkg = Package(res["files"])
        mi = next(m for m in pkg.client_methods() if m.name == job["method"])
        ci = pkg.resolve("client", mi.model)
        return {"validate": rt.validate(ci.module, ci.name, job["payload"]) if job.get("payload") is not None else {}, "query": mi.query, "opname": mi.operation_name}
    finally:
        rt.close()


def replay(data) -> bool:
    """returns True when NO violation is observed"""
    job = {"schema": data["schema"], "queries": data["queries"], "config": data.get("config") or {}, "method": data["method"], "payload": data["payload"]}
    r = gen.pmap(_child, [job])[0]
    print("real pydantic:", r)
    q = data.get("q")
    if q == "package":
        return "validate" in r or "gen_failed" not in r
    if q == "image":
        print("declared annotation of a configured custom scalar contains Any (see 'what' in the replay file); regenerate and inspect the emitted class")
        return False
    if q == "sent_document":
        from graphql import build_schema, parse, specified_rules, validate

        errs = validate(build_schema(data["schema"]), parse(r.get("query") or ""), specified_rules)
        print("sent document validation errors:", [e.message for e in errs][:3])
        return not errs
    v = r.get("validate", {})
    if q == "accept":
        return bool(v.get("accepted"))
    if q == "faith":
        return not (v.get("accepted") and v.get("problems"))
    if q == "strict":
        return not v.get("accepted")
    return True
