"""C06 - input models accept exactly the schema's input values, with its defaults (E-Z input side + E-X defaults)."""
from vlib import boot, corpus, ezin_check, gen, xh

LEVEL = "translation_validation"


def run(rep, tier):
    import ariadne_codegen.client_generators.input_fields as inf
    import ariadne_codegen.client_generators.input_types as it

    rep.encoded(inf.parse_input_field_type, inf.parse_input_field_default_value, inf.parse_input_const_value_node, it.InputTypesGenerator._parse_input_definition,
                it.InputTypesGenerator._process_field_value)
    depth = 1 if tier == "quick" else 2
    sdl = corpus.inputs_schema(depth)
    jobs = []
    from graphql import GraphQLInputObjectType, build_schema

    names = [n for n, t in build_schema(sdl).type_map.items() if isinstance(t, GraphQLInputObjectType)]
    for snake in (True, False):
        for tn in names:
            jobs.append({"schema": sdl, "queries": "query Q { ping }", "config": {"convert_to_snake_case": snake}, "types": [tn], "known": rep._known,
                         "depth": 2, "L": 2})
    # configured custom scalars (type str + serialize, type int): the model must accept exactly null-where-nullable and values of the type
    sdl2, scal, dom = corpus.inputs_scalar_schema(depth)
    for snake in (True, False):
        for tn in ("WStamp", "WHex", "MixS"):
            jobs.append({"schema": sdl2, "queries": "query Q { ping }", "config": {"convert_to_snake_case": snake, "scalars": scal}, "types": [tn], "known": rep._known,
                         "depth": 2, "L": 2, "scalar_domain": dom})
    # pruned packages: only the inputs an operation needs are emitted (their enums must still be imported), later-declared inputs first
    for q, tn in (("query Q($n: Names) { ping(n: $n) }", "Names"), ("query Q($d2: Defs) { ping(d2: $d2) }", "Defs"), ("query Q($f: WEnum) { ping(f: $f) }", "WEnum")):
        for all_enums in (True, False):
            jobs.append({"schema": sdl, "queries": q, "config": {"convert_to_snake_case": True, "include_all_inputs": False, "include_all_enums": all_enums},
                         "types": [tn], "known": rep._known, "depth": 2, "L": 2})
    results = gen.pmap(ezin_check.analyze_inputs, jobs)
    progs = types = nodes = 0
    for job, r in zip(jobs, results):
        for he in r["harness_errors"]:
            rep.harness_error(he[:600])
        for inc in r["inconclusive"]:
            rep.note_inconclusive(inc[:300])
        st = r["stats"]
        for k in ("sat", "unsat", "unknown"):
            rep.queries[k] += st[k]
        rep.solver_s += st["solver_s"]
        types += st["types"]
        nodes += st["nodes"]
        if r["gen"] and r["gen"]["ok"] and not r.get("import_failed"):
            progs += 1
        elif r["gen"] and not r["gen"]["ok"]:
            rep.violation({"q": "input", "problem": "generation_failed", "exc": r["gen"]["exc_type"]}, {"schema": job["schema"], "config": job["config"]},
                          f"generation failed: {r['gen']['exc_type']}: {r['gen']['exc_msg']}")
        elif r.get("import_failed"):
            bad = {k: v for k, v in r["import"]["modules"].items() if v != "ok"}
            rep.violation({"q": "input", "problem": "import_failed", "detail": str(bad)[:150]}, {"schema": job["schema"], "config": job["config"]}, f"emitted package does not load: {bad}")
        for s in r["samples"]:
            rep.sample(s)
        for f in r["findings"]:
            rep.violation(f["sig"], f["replay"], f["what"][:500])
    # ---- default literals (E-X)
    from harness import C06_defaults as H

    parts = xh.write_module("hC06_parts", H.parts_source(16))
    targets = [f"{parts}.check_defaults_p{p}" for p in range(16)] + ["harness.C06_defaults.twin_defaults_object_reached"]
    import os

    env = {"VERIF_C06_THOROUGH": "0" if tier == "quick" else "1"}
    os.environ.update(env)
    xres = xh.run_targets(targets, timeout=300 if tier == "quick" else 1800, env_extra=env)
    xh.fold(rep, parts, [r for r in xres if r.target.startswith(parts)])
    xh.fold(rep, "harness.C06_defaults", [r for r in xres if not r.target.startswith(parts)])
    rep.coverage["default_literal_cases"] = len(H.CASES)
    rep.coverage["default_harness_results"] = [{"target": r.target.rsplit(".", 1)[-1], "status": r.status, "wall_s": round(r.wall, 1)} for r in xres]
    rep.coverage.update({
        "programs": progs, "input_types": types, "skeleton_nodes": nodes, "disagreements_checked": sum(len(r["findings"]) for r in results),
        "bounds": {"wrapper_list_depth": depth, "list_len": "0..2", "nested_input_depth": 2, "construction": "by GraphQL name and by Python field name"},
        "explanation": "per input type: z3 unsat of (CoerceOK & !Acc) for both key modes and of (one required field removed & Acc); default literals are covered by the E-X harness C06_defaults",
    })
    rep.assume("canonical input form: IDs as strings, enum values by name, lists as lists", "graphql-core coerce_input_value is the reference in replay",
               "recursive inputs unrolled to depth 2")


def replay(data):
    r = gen.pmap(_replay_child, [data])[0]
    print(r)
    q = data.get("q")
    if q == "input_accept":
        return bool(r.get("accepted"))
    if q == "input_required":
        return not r.get("accepted")
    if q in ("input_image", "input_shadow"):
        return bool(r.get("accepted"))
    return True


def _replay_child(data):
    from vlib import ezin
    from vlib.extract import Package
    from vlib.ezcheck import PkgRuntime

    res = gen.generate({"schema": data["schema"], "queries": "query Q { ping }", "config": data.get("config") or {}})
    if not res["ok"]:
        return {"gen_failed": res["exc_msg"]}
    rt = PkgRuntime(res["files"])
    try:
        pkg = Package(res["files"])
        ci = pkg.resolve("input_types", data["type"])
        if data.get("q") == "input_shadow":
            import pydantic as _pyd

            return {"fields": [f.name for f in pkg.all_fields(ci).values()], "accepted": data.get("field") not in [f.name for f in pkg.all_fields(ci).values() if f.name in dir(_pyd.BaseModel)]}
        if data.get("q") == "input_image":
            import ast as _ast

            anns = {f.name: _ast.unparse(f.ann) for f in pkg.all_fields(ci).values()}
            return {"annotations": anns, "accepted": not any("Any" in a for a in anns.values())}
        ns = {}
        exec(compile(ezin_check.VALIDATE_IN, "<v>", "exec"), ns)
        v = ezin.to_python_keys(pkg, ci, data["value"]) if data.get("by_name") else data["value"]
        return ns["main"](rt.pkgname, {"module": ci.module, "model": ci.name, "value": v})
    finally:
        rt.close()
