"""C16 - the graphqlschema strategy reproduces the schema (E-X over a feature grammar, exec + print_schema as oracle)."""
from vlib import xh

LEVEL = "exploration"
MOD = "harness.C16_schema"


def run(rep, tier):
    from ariadne_codegen.graphql_schema_generators import directives, fields, named_types, schema

    rep.encoded(schema.generate_schema_module, schema.generate_type_map, schema.generate_schema, schema.generate_graphql_schema_graphql_file,
                named_types.generate_named_type, named_types.generate_object_type, named_types.generate_input_object_type, named_types.generate_enum_type,
                fields.generate_field, fields.generate_arg, fields.generate_input_field, fields.generate_enum_value, directives.generate_directive)
    from harness import C16_schema as H

    parts = xh.write_module("hC16_parts", H.parts_source())
    targets = [f"{parts}.check_schema_d{d}_s{s}" for d in range(len(H.DEFAULTS)) for s in range(3)] + [f"{parts}.check_schema_history_{h}_s{s}" for h in (0, 1) for s in range(3)] + [f"{MOD}.twin_full_features_ok"]
    env = {"VERIF_C16_FLAGS": "4" if tier == "quick" else "8", "VERIF_C16_FORMATS": "2" if tier == "quick" else "3"}
    res = xh.run_targets(targets, timeout=600 if tier == "quick" else 2400, env_extra=env)
    xh.fold(rep, parts, [r for r in res if r.target.startswith(parts)])
    xh.fold(rep, MOD, [r for r in res if r.target.startswith(MOD)])
    rep.coverage.update({
        "evaluations": len(res), "distinct_nontrivial": len(res) - 1, "exhaustive": all(r.status in ("confirmed", "counterexample") for r in res),
        "rule": "symbolic ints choose description style (none / one line / multi-line with quotes, backslashes, apostrophes), default-literal family (6: none, scalars, enum+null+escaped quotes, lists/nested lists, nested objects and lists of objects with enums, extreme floats/ints/unicode), one of 8 flag sets over {deprecations on field/arg/enum value/input field, interface implementing interface, custom root names, repeatable directive, specifiedBy, schema description, directive}, target format (py/graphql/gql), variable names, source (local SDL / introspected through a stub endpoint executing the real introspection query); oracle: exec of the emitted module (or parse of the emitted SDL) gives a schema with equal print_schema and equal structure (types, fields, args, coerced default values, descriptions, deprecations, interfaces, union members, enum values, directives, repeatability, specifiedBy, roots)",
        "bounds": {"schemas": 3 * len(H.DEFAULTS) * int(env["VERIF_C16_FLAGS"]), "formats": int(env["VERIF_C16_FORMATS"]), "sources": 2},
        "results": [{"target": r.target.rsplit('.', 1)[-1], "status": r.status, "wall_s": round(r.wall, 1)} for r in res],
    })
    rep.sample({"sdl_excerpt": H.build_sdl(2, 4, H.FLAGSETS[1])[:600]})
    rep.assume("string contents are a fixed set of nasty literals (quotes, backslashes, apostrophes, unicode, multi-line), not all strings", "the 7 boolean features are explored through 8 fixed combinations")


def replay(data):
    v = xh.replay_call(data["module"], data["call"])
    print("concrete replay:", v)
    return v is True
