"""C08 - fragments and mixins are honoured as reusable base types (E-Z subclass / sole-validation queries + E-X)."""
import re

from vlib import boot, corpus, ezcheck, ezrun, gen, xh

LEVEL = "translation_validation"
# operations that trigger the two listed import-time defects are left out of half of the packages so that those are analysable
CLEAN_AVOID = ("UD", "node { ...UA }", "nodes {", "user { ...NA }", "named { ...MA ...NA }")


def classify_import_failure(imp: dict) -> dict:
    msgs = [v for v in imp.get("modules", {}).values() if v != "ok"]
    text = " | ".join(msgs)
    if "consistent method resolution" in text:
        cls = "mro_conflict"
    elif re.search(r"cannot import name '\w+' from '[\w.]*fragments'", text) or "No module named" in text and "fragments" in text:
        cls = "fragment_excluded_but_imported"
    else:
        cls = "other"
    return {"q": "frag", "problem": "package_import_failed", "class": cls, "detail": text[:200] if cls == "other" else None}


def run(rep, tier):
    import ariadne_codegen.client_generators.fragments as fr
    import ariadne_codegen.client_generators.package as pk
    import ariadne_codegen.client_generators.result_types as rtm

    rep.encoded(rtm.ResultTypesGenerator._unpack_fragment, rtm.ResultTypesGenerator._resolve_selection_set, rtm.ResultTypesGenerator._get_extra_bases_from_mixin_directives,
                fr.FragmentsGenerator.generate, fr.FragmentsGenerator._get_sorted_fragments_names, fr.FragmentsGenerator._get_model_rebuild_calls, pk.PackageGenerator._generate_fragments)
    seed = boot.seed()
    if tier == "quick":
        jobs = corpus.fragment_packages(10, 5, seed) + corpus.fragment_packages(8, 6, seed + 1, avoid=CLEAN_AVOID)
    else:
        jobs = corpus.fragment_packages(60, 6, seed) + corpus.fragment_packages(60, 7, seed + 1, avoid=CLEAN_AVOID)
    for j in jobs:
        j["modes"] = ["frag"]
        j["known"] = rep._known
    results = gen.pmap(ezcheck.analyze, jobs)
    progs, ops, nodes, gen_fail = ezrun.fold(rep, results, jobs, {"frag"})
    sites = 0
    for job, r in zip(jobs, results):
        sites += r["stats"].get("frag_sites", 0)
        if r["gen"] and not r["gen"]["ok"]:
            cls = "fragment_excluded_but_referenced" if r["gen"]["exc_type"] == "builtins.KeyError" and r["gen"]["exc_msg"].strip("'") in corpus.FRAG_POOL else "other"
            rep.violation({"q": "frag", "problem": "generation_failed", "exc": r["gen"]["exc_type"], "class": cls}, {"schema": job["schema"], "queries": job["queries"], "config": job["config"]},
                          f"generation failed on a valid fragment graph: {r['gen']['exc_type']}: {r['gen']['exc_msg']}")
        elif r.get("import_failed"):
            sig = classify_import_failure(r["import"])
            rep.violation(sig, {"schema": job["schema"], "queries": job["queries"], "config": job["config"], "q": "import"},
                          f"emitted package does not load: {[v for v in r['import']['modules'].values() if v != 'ok'][:2]}")
    # ---- @mixin placements (E-X)
    import os

    os.environ["VERIF_C08_THOROUGH"] = "0" if tier == "quick" else "1"
    from harness import C08_mixin as HM

    parts = xh.write_module("hC08_parts", HM.parts_source())
    from harness import C08_order as HO

    oparts = xh.write_module("hC08_order", HO.parts_source())
    targets = [f"{parts}.check_mixin_p{i}" for i in range(8)] + ["harness.C08_mixin.twin_all_sites_on"]
    targets += [f"{oparts}.check_order_{a}{b}" for a in range(3) for b in range(3)] + ["harness.C08_order.twin_nested_and_top"]
    xres = xh.run_targets(targets, timeout=600 if tier == "quick" else 1800)
    xh.fold(rep, parts, [r for r in xres if r.target.startswith(parts)])
    xh.fold(rep, oparts, [r for r in xres if r.target.startswith(oparts)])
    xh.fold(rep, "harness.C08_mixin", [r for r in xres if r.target.startswith("harness.C08_mixin")])
    xh.fold(rep, "harness.C08_order", [r for r in xres if r.target.startswith("harness.C08_order")])
    rep.coverage["mixin_placement_subsets"] = 2 ** (HM.NS if tier != "quick" else HM.NS - 2)
    rep.coverage["mixin_harness_results"] = [{"target": r.target.rsplit(".", 1)[-1], "status": r.status, "wall_s": round(r.wall, 1)} for r in xres]
    rep.coverage.update({
        "programs": progs, "packages": len(jobs), "operations": ops, "fragment_spread_sites": sites, "packages_not_analysed": gen_fail,
        "disagreements_checked": sum(len(r["findings"]) for r in results),
        "bounds": {"fragment_pool": len(corpus.FRAG_POOL), "operation_pool": len(corpus.FRAG_OPS), "definition_orders": "random shuffle per package (seeded)", "list_len": "0..2"},
        "explanation": "per qualifying spread site: z3 unsat of (Conf & live & selected-class-not-subclass) and of (Conf & live & !Acc_F(sub-payload)); plus import of every emitted package",
    })
    rep.assume("qualifying spread = direct child of the selection set, no @skip/@include, fragment type == selection type, fragment without inline fragments",
               "@mixin: every subset of 9 placement sites (plain field, field spreading a fragment, nested in an inline fragment, fragment definition, fragment spreading a fragment, two mixins, list field, the same mixin on two sibling fields / on a field and a field below it) x definition order is explored by CrossHair (harness/C08_mixin.py); symbolic set-iteration orders of the fragment sort are covered by C10",
               "ordering kernel: every assignment of {no edge, top-level spread, nested spread} to the 6 pairs of 4 fragments (names chosen so that every lexicographic relation occurs) x both definition orders through the real FragmentsGenerator; the emitted module must define bases before use and must exec (harness/C08_order.py)")


def replay(data):
    from checks import ez_replay
    if data.get("q") == "import":
        r = gen.pmap(_import_child, [data])[0]
        print(r)
        return not r
    return ez_replay.replay(data)


def _import_child(job):
    res = gen.generate({"schema": job["schema"], "queries": job["queries"], "config": job.get("config") or {}})
    if not res["ok"]:
        return True
    imp = gen.pkg_eval({"files": res["files"], "code": gen.IMPORT_CODE})
    return (not imp["ok"]) or any(v != "ok" for v in imp["result"]["modules"].values())
