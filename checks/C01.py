"""C01 - result models accept and preserve every conformant response (E-Z translation validation)."""
from vlib import ezrun, gen, ezcheck, boot

LEVEL = "translation_validation"


def run(rep, tier):
    import ariadne_codegen.client_generators.result_fields as rf
    import ariadne_codegen.client_generators.result_types as rtm

    rep.encoded(rtm.ResultTypesGenerator._parse_type_definition, rtm.ResultTypesGenerator._resolve_selection_set,
                rtm.ResultTypesGenerator._get_typename_values, rtm.ResultTypesGenerator._process_field_implementation,
                rf.parse_operation_field, rf.parse_operation_field_type, rf.parse_interface_type, rf.parse_union_type,
                rf.parse_list_type, rf.parse_directives, rf.annotate_nested_unions)
    jobs = [j for j in ezrun.corpus_jobs(tier, boot.seed()) if j.get("only_for") in (None, "C01")]
    known = rep._known
    for j in jobs:
        j["modes"] = ["accept", "faith"]
        j["known"] = known
    results = gen.pmap(ezcheck.analyze, jobs)
    def not_analysable(job, r):
        # every package of this corpus generates and loads on the unchanged tree; one that does not cannot be judged and is reported
        why = (r["gen"] or {}).get("exc_msg") if not (r["gen"] or {}).get("ok") else str({k: v for k, v in (r.get("import") or {}).get("modules", {}).items() if v != "ok"})[:200]
        rep.violation(ezrun.classify_unanalysable(job, r), {"schema": job["schema"], "queries": job["queries"], "config": job.get("config") or {}, "q": "package"},
                      f"a package of the corpus does not generate / load, its models cannot be judged: {why}")

    progs, ops, nodes, gen_fail = ezrun.fold(rep, results, jobs, {"accept", "faith"}, not_analysable)
    rep.coverage.update({
        "programs": progs, "operations": ops, "skeleton_nodes": nodes, "packages_not_analysed": gen_fail,
        "disagreements_checked": sum(len(r["findings"]) for r in results),
        "bounds": {"list_len": "0..2", "corpus": f"abstract family + wrapper stacks, tier={tier}", "atoms": "null,true,false,7,1,0,1.5,2.0 + string table"},
        "explanation": "per generated operation: z3 unsat of (Conf & !Acc) and (Conf & Acc & !Faithful) over the symbolic response skeleton",
    })
    rep.assume("graphql-core execute() is the reference for 'response a conformant server can return' (used in replay)",
               "pydantic leaf coercions are measured on the installed pydantic, list elements validated independently",
               "packages whose generation or import fails are judged by C04, not here")


def replay(data):
    from checks import ez_replay
    return ez_replay.replay(data)
