"""C14 - the custom operation builder emits valid, faithful, history-free documents (E-X over builder expressions)."""
from vlib import xh

LEVEL = "exploration"
MOD = "harness.C14_builder"


def run(rep, tier):
    from ariadne_codegen.client_generators.custom_arguments import ArgumentGenerator
    from ariadne_codegen.client_generators.custom_fields import CustomFieldsGenerator
    from ariadne_codegen.client_generators.dependencies.base_operation import GraphQLField

    rep.encoded(GraphQLField.to_ast, GraphQLField._collect_all_variables, GraphQLField._format_variable_name, GraphQLField.get_formatted_variables, GraphQLField._build_selections,
                ArgumentGenerator.generate_arguments, CustomFieldsGenerator.generate)
    import os

    env = {"VERIF_C14_QUICK": "1" if tier == "quick" else "0"}
    os.environ.update(env)
    from harness import C14_builder as H

    parts = xh.write_module("hC14_parts", H.parts_source())
    from harness import C14_names as HN

    nparts = xh.write_module("hC14_names", HN.parts_source())
    targets = [f"{parts}.check_builder_s{i}" for i in range(H.NSH)] + [f"{MOD}.twin_two_fields_same_arg"] + [f"{nparts}.check_names_{i}" for i in range(16)]
    res = xh.run_targets(targets, timeout=900 if tier == "quick" else 3000, env_extra=env)
    xh.fold(rep, parts, [r for r in res if r.target.startswith(parts)])
    xh.fold(rep, MOD, [r for r in res if r.target.startswith(MOD)])
    xh.fold(rep, nparts, [r for r in res if r.target.startswith(nparts)])
    rep.coverage.update({
        "evaluations": len(res), "distinct_nontrivial": len(res) - 1, "exhaustive": all(r.status in ("confirmed", "counterexample") for r in res),
        "rule": f"builder expression = 1 or 2 top-level fields out of {H.NSH} shapes (plain, scalar args, list args, sub-field with args, camelCase sub-field, depth-2 args, union inline fragments, aliases, input-object arg, None arg, interface inline fragment) x {len(H.PREFIXES)} history prefixes of previously built operations x sync/async; every scenario in a fresh interpreter; oracle: graphql-core validate against the schema, every set argument bound to exactly one declared variable of the argument's exact type and the caller's value, None omitted, document equal to the one built without history",
        "bounds": {"shapes": H.NSH, "top_level_fields": "<= 2", "second_field_shapes": len(H.SECOND), "history": "<= 2 previous operations"},
        "results": [{"target": r.target.rsplit('.', 1)[-1], "status": r.status, "wall_s": round(r.wall, 1)} for r in res],
    })
    rep.sample({"expression": H.SHAPES[6][1], "expected_variables": {"after_0": "String", "limit_0": "Int!"}})
    rep.assume("two root fields are given distinct aliases by the caller", "transport stubbed",
               "naming kernel: two top-level fields each with a child, every presence pattern of an argument on the 4 fields x argument names from {a, a_0, a_0_1, a_1, b}: every argument occurrence must get its own declared variable bound to its value (real to_ast / get_formatted_variables / generated _combine_variables)")


def replay(data):
    v = xh.replay_call(data["module"], data["call"])
    print("concrete replay:", v)
    return v is True
