"""C08 harness (mixin clause): every class named by @mixin(from:, import:) on a field or fragment definition is imported and is an
additional base of exactly the class generated for that field / fragment - for every subset of placements."""
import ast
import importlib
import os
import shutil
import sys
import tempfile

from harness._h import NoTracing, opened_auditwall, pick
from vlib import corpus, gen

MIXINS = "class MixA:\n    def hello(self):\n        return 'a'\n\n\nclass MixB:\n    def bye(self):\n        return 'b'\n"
A = '@mixin(from: ".mixins", import: "MixA")'
B = '@mixin(from: ".mixins", import: "MixB")'
# (site name, text with {D} where the directive goes, operation/fragment it belongs to, class that must get the base(s), mixins)
SITES = [
    ("plain_field", "query S1 {{ user {D} {{ id }} }}", "S1User", ["MixA"], A),
    ("field_spreading_fragment", "query S2 {{ user {D} {{ ...UF }} }}", "S2User", ["MixA"], A),
    ("nested_in_inline_fragment", "query S3 {{ node(id: \"1\") {{ id ... on User {{ bestFriend {D} {{ name }} }} }} }}", "S3NodeUserBestFriend", ["MixB"], B),
    ("fragment_definition", "fragment UF on User {D} {{ id name }}", "UF", ["MixB"], B),
    ("fragment_spreading_fragment", "fragment UG on User {D} {{ ...UF color }}", "UG", ["MixA"], A),
    ("two_mixins", "query S6 {{ me {D} {{ id }} }}", "S6Me", ["MixA", "MixB"], A + " " + B),
    ("list_field", "query S7 {{ users {D} {{ id friends {{ id }} }} }}", "S7Users", ["MixB"], B),
    # the same mixin on two classes of ONE operation (sibling fields; a field and a field nested below it)
    ("same_mixin_on_siblings", "query S8 {{ user {D} {{ id }} me {D} {{ name }} }}", ("S8User", "S8Me"), ["MixA"], A),
    ("mixin_after_other_directive", "query S10 {{ user @include(if: true) {D} {{ id }} }}", "S10User", ["MixA"], A),
    ("same_mixin_nested", "query S9 {{ user {D} {{ id bestFriend {D} {{ name }} }} }}", ("S9User", "S9UserBestFriend"), ["MixB"], B),
]
EXTRA = "query S5 { user { ...UG } }"
NS = len(SITES)


def build(bits, reverse):
    parts = [s[1].format(D=s[4] if on else "") for s, on in zip(SITES, bits)] + [EXTRA]
    if reverse:
        parts = parts[::-1]
    return "\n".join(parts)


_N = [0]


def run_case(bits, reverse, snake):
    q = build(bits, reverse)
    _N[0] += 1
    name = f"p08_{os.getpid()}_{_N[0]}"
    r = gen.generate({"schema": corpus.S_ABS, "queries": q, "files": {"mixins.py": MIXINS},
                      "config": {"files_to_include": ["mixins.py"], "target_package_name": name, "convert_to_snake_case": snake}})
    if not r["ok"]:
        return [f"generation failed: {r['exc_type']}: {(r['exc_msg'] or '')[:150]}"]
    base = tempfile.mkdtemp(prefix="vh08_", dir="/tmp")
    probs = []
    try:
        os.makedirs(os.path.join(base, name))
        for fn, src in r["files"].items():
            with open(os.path.join(base, name, fn), "w") as f:
                f.write(src)
        sys.path.insert(0, base)
        try:
            pkg = importlib.import_module(name)
            mix = importlib.import_module(name + ".mixins")
            mods = [importlib.import_module(name + "." + fn[:-3]) for fn in r["files"] if fn.endswith(".py") and fn not in ("__init__.py",)]
        except Exception as e:
            return [f"package does not load: {type(e).__name__}: {str(e)[:150]}"]
        finally:
            sys.path.remove(base)
        classes = {}
        for m in mods:
            for k, v in vars(m).items():
                if isinstance(v, type) and getattr(v, "__module__", "").startswith(name + ".") and v.__module__ == m.__name__:
                    classes[k] = v
        want = {}
        for (site, _t, cls, mixins, _d), on in zip(SITES, bits):
            for c in (cls if isinstance(cls, tuple) else (cls,)):
                want[c] = set(mixins) if on else set()
        for cname, cls in classes.items():
            if cname in ("MixA", "MixB"):
                continue
            direct = {b.__name__ for b in cls.__bases__ if b.__name__ in ("MixA", "MixB")}
            expected = want.get(cname, set())
            if cname in want and cname not in classes:
                probs.append(f"class {cname} missing")
            if direct != expected:
                probs.append(f"class {cname}: mixin bases {sorted(direct)} but the directives name {sorted(expected)}")
        for cname in want:
            if cname not in classes:
                probs.append(f"class {cname} was not generated")
        return probs
    finally:
        for k in [k for k in sys.modules if k == name or k.startswith(name + ".")]:
            del sys.modules[k]
        shutil.rmtree(base, ignore_errors=True)


def _check(bits, reverse, snake) -> bool:
    bs = [True if b else False for b in bits]
    rv, sn = (True if reverse else False), (True if snake else False)
    with NoTracing():
        with opened_auditwall():
            probs = run_case(bs, rv, sn)
    return not probs


def parts_source() -> str:
    out = ["from harness.C08_mixin import _check", ""]
    i = 0
    for a in (False, True):
        for b in (False, True):
            for c in (False, True):
                if os.environ.get("VERIF_C08_THOROUGH", "0") == "1":
                    out.append(f"def check_mixin_p{i}(b3: bool, b4: bool, b5: bool, b6: bool, b7: bool, b8: bool, reverse: bool) -> bool:\n    \"\"\"\n    post: _\n    \"\"\"\n"
                               f"    return _check([{a}, {b}, {c}, b3, b4, b5, b6, b7, b8, b4 != b6], reverse, b3 != b5)\n")
                else:
                    # quick tier: the two same-mixin sites are tied to earlier bits (every on/off combination of the two still occurs)
                    out.append(f"def check_mixin_p{i}(b3: bool, b4: bool, b5: bool, b6: bool, reverse: bool) -> bool:\n    \"\"\"\n    post: _\n    \"\"\"\n"
                               f"    return _check([{a}, {b}, {c}, b3, b4, b5, b6, b5, b4, b6], reverse, b3 != b5)\n")
                i += 1
    return "\n".join(out)


def twin_all_sites_on(reverse: bool) -> bool:
    """
    post: _
    """
    with NoTracing():
        with opened_auditwall():
            probs = run_case([True] * NS, True if reverse else False, True)
    return bool(probs)
