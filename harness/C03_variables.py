"""C03 harness: arguments of the generated methods arrive at the server as the declared variables.

Packages are generated once at import (sync/async x snake on/off).  Per path CrossHair chooses the operation and, per
variable, the caller's intent (omit / None / one of a few values incl. generated input models built by field name or by
alias); the real generated method runs on the real base client with a recording http client; the recorded JSON must equal
the intent tree under GraphQL names and graphql-core's variable coercion must accept it and deliver the intent.
"""
import importlib
import json
import os
import sys
import tempfile

from harness._h import NoTracing, known, opened_auditwall, pick
from vlib import gen
from vlib.extract import Package

SDL = """
type Query { ping(hexValue: Hex, from: Hex, gql: Int, h: Hex, hreq: Hex, id: ID, n: Int, tags: [String!], f: Filter, e: Color, fs: [Filter!], camelCase: Int, in: String, _under: Int, opt: [[Int]], req: [Int], rec: Rec, d: Date, b: Boolean, ni: Int, mix: [Filter], grid: [[Filter!]], Query: String, Variables: Int, _response: String, DATA: Int, operationName: String): Int }
enum Color { RED GREEN in }
scalar Date
scalar Hex
input Filter { a: Int! = 3, b: [Filter!], c: Color = GREEN, camelCase: String, in: Int, _id: ID, _Rank: Int }
input Rec { v: Int, next: Rec }
"""
OPS = """
query V1($id: ID!, $n: Int, $tags: [String!]) { ping(id: $id, n: $n, tags: $tags) }
query V2($f: Filter, $e: Color = RED, $fs: [Filter!]!) { ping(f: $f, e: $e, fs: $fs) }
query V3($camelCase: Int, $in: String, $_under: Int) { ping(camelCase: $camelCase, in: $in, _under: $_under) }
query V4($opt: [[Int]], $req: [Int]!, $rec: Rec) { ping(opt: $opt, req: $req, rec: $rec) }
query V5($d: Date, $b: Boolean!, $ni: Int! = 7) { ping(d: $d, b: $b, ni: $ni) }
query V6($mix: [Filter], $grid: [[Filter!]]) { ping(mix: $mix, grid: $grid) }
query V7($Query: String, $Variables: Int, $_response: String) { ping(Query: $Query, Variables: $Variables, _response: $_response) }
query V8($DATA: Int, $operationName: String) { ping(DATA: $DATA, operationName: $operationName) }
query V9($h: Hex, $hreq: Hex!) { ping(h: $h, hreq: $hreq) }
query Va($gql: Int) { ping(gql: $gql) }
query Vb($hexValue: Hex!, $from: Hex!) { ping(hexValue: $hexValue, from: $from) }
"""
OMIT, NULL = "__omit__", "__null__"

# per variable: list of (label, python value builder(pkg), expected JSON); OMIT/NULL are added from the variable's type
VALUES = {
    # Hex is configured with type int and serialize=hex: the wire value is hex(value), also for the falsy value 0
    "h": [("v", lambda p: 255, "0xff"), ("zero", lambda p: 0, "0x0")],
    "hreq": [("v", lambda p: 16, "0x10"), ("zero", lambda p: 0, "0x0")],
    "gql": [("i", lambda p: 3, 3)],
    "hexValue": [("v", lambda p: 10, "0xa")],
    "from": [("v", lambda p: 11, "0xb"), ("zero", lambda p: 0, "0x0")],
    "id": [("s", lambda p: "abc", "abc")],
    "n": [("i", lambda p: 5, 5), ("z", lambda p: 0, 0)],
    "tags": [("l0", lambda p: [], []), ("l2", lambda p: ["a", "b"], ["a", "b"])],
    "f": [("byname", lambda p: p.Filter(a=1, camel_case="x") if hasattr(p.Filter, "model_fields") and "camel_case" in p.Filter.model_fields else p.Filter(a=1, camelCase="x"), {"a": 1, "camelCase": "x"}),
          ("byalias", lambda p: p.Filter.model_validate({"camelCase": "y", "in": 2}), {"camelCase": "y", "in": 2}),
          ("nested", lambda p: p.Filter(b=[p.Filter(c=p.Color.RED)], c=None), {"b": [{"c": "RED"}], "c": None}),
          ("empty", lambda p: p.Filter(), {}),
          ("underscored", lambda p: p.Filter.model_validate({"_id": "7", "_Rank": 3}), {"_id": "7", "_Rank": 3}),
          ("underscored_by_name", lambda p: p.Filter(**{[n for n, f in p.Filter.model_fields.items() if (f.alias or n) == "_id"][0]: "8"}), {"_id": "8"})],
    "e": [("m", lambda p: p.Color.GREEN, "GREEN"), ("kw", lambda p: getattr(p.Color, "in_"), "in")],
    "fs": [("l0", lambda p: [], []), ("l1", lambda p: [p.Filter(a=2)], [{"a": 2}]),
           ("renamed", lambda p: [p.Filter.model_validate({"camelCase": "z", "in": 1, "_id": "5"}), p.Filter(b=[p.Filter.model_validate({"in": 2})])],
            [{"camelCase": "z", "in": 1, "_id": "5"}, {"b": [{"in": 2}]}])],
    "camelCase": [("i", lambda p: 1, 1)],
    "in": [("s", lambda p: "k", "k")],
    "_under": [("i", lambda p: 2, 2)],
    "opt": [("ll", lambda p: [[1, None], None, []], [[1, None], None, []])],
    "req": [("l", lambda p: [None, 3], [None, 3]), ("l0", lambda p: [], [])],
    "rec": [("deep", lambda p: p.Rec(v=1, next=p.Rec(next=None)), {"v": 1, "next": {"next": None}})],
    "d": [("s", lambda p: "2020-01-01", "2020-01-01"), ("o", lambda p: {"k": [1]}, {"k": [1]})],
    "b": [("t", lambda p: True, True), ("f", lambda p: False, False)],
    "ni": [("i", lambda p: 9, 9)],
    "Query": [("s", lambda p: "needle", "needle")],
    "Variables": [("i", lambda p: 4, 4)],
    "_response": [("s", lambda p: "r", "r")],
    "DATA": [("i", lambda p: 6, 6)],
    "operationName": [("s", lambda p: "other", "other")],
    "mix": [("renamed_after_null", lambda p: [None, p.Filter.model_validate({"camelCase": "q", "_Rank": 2})], [None, {"camelCase": "q", "_Rank": 2}]), ("null_first", lambda p: [None, p.Filter(a=2)], [None, {"a": 2}]), ("model_last", lambda p: [p.Filter(), None, p.Filter(c=None)], [{}, None, {"c": None}])],
    "grid": [("nested", lambda p: [[p.Filter(a=1)], None, [p.Filter(a=2), p.Filter()]], [[{"a": 1}], None, [{"a": 2}, {}]]), ("empty_inner", lambda p: [[], [p.Filter(a=3)]], [[], [{"a": 3}]])],
}

_PKGS = {}
_META = {}
SETUP_ERROR = ""
try:
    with opened_auditwall():
        _BASE = tempfile.mkdtemp(prefix="vh03_", dir="/tmp")
        for _async in (False, True):
            for _snake in (True, False):
                _name = f"p03_{int(_async)}{int(_snake)}"
                _r = gen.generate({"schema": SDL, "queries": OPS, "config": {"async_client": _async, "convert_to_snake_case": _snake, "target_package_name": _name,
                                                                            "scalars": {"Hex": {"type": "int", "serialize": "hex"}}}})
                if not _r["ok"]:
                    raise RuntimeError(f"generation failed: {_r['exc_type']}: {_r['exc_msg']}")
                _d = os.path.join(_BASE, _name)
                os.makedirs(_d)
                for _fn, _src in _r["files"].items():
                    with open(os.path.join(_d, _fn), "w") as _f:
                        _f.write(_src)
                _META[(_async, _snake)] = {m.operation_name: m for m in Package(_r["files"], _name).client_methods()}
        sys.path.insert(0, _BASE)
        for _async in (False, True):
            for _snake in (True, False):
                _PKGS[(_async, _snake)] = importlib.import_module(f"p03_{int(_async)}{int(_snake)}")
except Exception as _e:
    SETUP_ERROR = f"{type(_e).__name__}: {_e}"

from graphql import GraphQLNonNull, build_schema, parse, type_from_ast  # noqa: E402
from graphql.execution.values import get_variable_values  # noqa: E402

SCHEMA = build_schema(SDL)
DOC = parse(OPS)
OPDEFS = {d.name.value: d for d in DOC.definitions}
OPNAMES = sorted(OPDEFS)


def var_states(opname):
    """[(gql var name, [state...])]; state = (label, builder, expected json | OMIT)"""
    out = []
    for vd in OPDEFS[opname].variable_definitions:
        name = vd.variable.name.value
        t = type_from_ast(SCHEMA, vd.type)
        states = list(VALUES[name])
        if not isinstance(t, GraphQLNonNull):
            states.append(("null", lambda p: None, None))
        if not isinstance(t, GraphQLNonNull) or vd.default_value is not None:
            states.append(("omit", None, OMIT))
        out.append((name, states))
    return out


class Rec:
    def __init__(self):
        self.calls = []

    def post(self, **kw):
        self.calls.append(kw)
        return "RESP"


class ARec(Rec):
    async def post(self, **kw):  # type: ignore[override]
        self.calls.append(kw)
        return "RESP"


def arg_of(mi, expr):
    """the method parameter a variables-dict value is computed from: the parameter itself or an expression over exactly one
    parameter (serialize(arg) for configured scalars)"""
    import ast

    if expr is None:
        return None
    params = {a[0] for a in mi.args}
    try:
        used = {n.id for n in ast.walk(ast.parse(expr, mode="eval")) if isinstance(n, ast.Name) and n.id in params}
    except SyntaxError:
        return None
    return next(iter(used)) if len(used) == 1 else None


def call(is_async, snake, opname, chosen):
    pkg = _PKGS[(is_async, snake)]
    mi = _META[(is_async, snake)][opname]
    client = pkg.Client.__new__(pkg.Client)
    client.url, client.headers = "http://x", None
    rec = ARec() if is_async else Rec()
    client.http_client = rec
    client.get_data = lambda resp: {"ping": 1}
    kwargs = {}
    for (name, _states), st in zip(var_states(opname), chosen):
        if st[2] is OMIT:
            continue
        pyname = arg_of(mi, mi.variables.get(name))
        if pyname is None:
            return None, f"variable {name} is not bound to one python argument in the generated variables dict: {mi.variables_src}"
        kwargs[pyname] = st[1](pkg)
    meth = getattr(client, mi.name)
    try:
        if is_async:
            co = meth(**kwargs)
            try:
                co.send(None)
                return None, "suspended"
            except StopIteration:
                pass
        else:
            meth(**kwargs)
    except Exception as e:
        return None, f"call failed: {type(e).__name__}: {str(e)[:200]}"
    if len(rec.calls) != 1 or "content" not in rec.calls[0]:
        return None, f"unexpected transport calls: {rec.calls}"
    return json.loads(rec.calls[0]["content"]), None


def required_without_default(is_async, snake, opname):
    """signature check: a required (non-null, no default) variable has no default in the method signature"""
    mi = _META[(is_async, snake)][opname]
    bad = []
    for vd in OPDEFS[opname].variable_definitions:
        name = vd.variable.name.value
        t = type_from_ast(SCHEMA, vd.type)
        if isinstance(t, GraphQLNonNull) and vd.default_value is None:
            py = arg_of(mi, mi.variables.get(name))
            arg = next((a for a in mi.args if a[0] == py), None)
            if arg is None or arg[2] is not None:
                bad.append(name)
    return bad


def _check(is_async, snake, op, s0, s1, s2):
    if SETUP_ERROR:
        return False
    opname = OPNAMES[pick(op, len(OPNAMES))]
    vs = var_states(opname)
    sel = []
    for (name, states), s in zip(vs, (s0, s1, s2)):
        sel.append(states[pick(s, len(states))])
    with NoTracing():
        body, err = call(is_async, snake, opname, sel)
        if err:
            nn_default_omitted = any(st[2] is OMIT and isinstance(type_from_ast(SCHEMA, vd.type), GraphQLNonNull) and vd.default_value is not None
                                     for vd, st in zip(OPDEFS[opname].variable_definitions, sel))
            if nn_default_omitted and "missing 1 required positional argument" in err:
                return known("C03-nonnull-variable-with-default-required")
            if opname == "Va" and "object is not callable" in err:
                return known("C03-variable-named-gql")
            ser_on_absent = any(name == "h" and (st[2] is OMIT or st[2] is None) for (name, _), st in zip(vs, sel))
            if ser_on_absent and "call failed: TypeError" in err:
                # the generated method calls serialize(arg) for a nullable top-level variable that is None / omitted (C07 lists it)
                return known("C03-serialize-called-for-null-or-omitted")
            return False
        expected = {name: st[2] for (name, _), st in zip(vs, sel) if st[2] is not OMIT}
        if body.get("operationName") != opname or body.get("variables") != expected:
            return False
        if required_without_default(is_async, snake, opname):
            return False
        # reference variable coercion accepts what was sent and delivers the caller's values (defaults for omitted ones)
        coerced = get_variable_values(SCHEMA, OPDEFS[opname].variable_definitions, body["variables"])
        if isinstance(coerced, list):
            return False
        for (name, _), st in zip(vs, sel):
            if st[2] is OMIT:
                continue
            if name not in coerced:
                return False
        return True


def check_sync_snake(op: int, s0: int, s1: int, s2: int) -> bool:
    """
    post: _
    """
    return _check(False, True, op, s0, s1, s2)


def check_sync_plain(op: int, s0: int, s1: int, s2: int) -> bool:
    """
    post: _
    """
    return _check(False, False, op, s0, s1, s2)


def check_async_snake(op: int, s0: int, s1: int, s2: int) -> bool:
    """
    post: _
    """
    return _check(True, True, op, s0, s1, s2)


def check_async_plain(op: int, s0: int, s1: int, s2: int) -> bool:
    """
    post: _
    """
    return _check(True, False, op, s0, s1, s2)


def twin_nested_model_sent(op: int, s0: int, s1: int, s2: int) -> bool:
    """
    post: _
    """
    if SETUP_ERROR:
        return True
    opname = OPNAMES[pick(op, len(OPNAMES))]
    vs = var_states(opname)
    sel = [states[pick(s, len(states))] for (name, states), s in zip(vs, (s0, s1, s2))]
    with NoTracing():
        body, err = call(False, True, opname, sel)
        return not (err is None and body["variables"].get("f") == {"b": [{"c": "RED"}], "c": None})
