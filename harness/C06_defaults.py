"""C06 harness (defaults): for every default literal of a bounded grammar the emitted input model, built without
that field, reads back the value graphql-core coerces the schema default to."""
import importlib
import os
import shutil
import sys
import tempfile

from harness._h import NoTracing, known, opened_auditwall, pick
from vlib import gen

SCALARS = [("Int", ["3", "0", "-7"]), ("Float", ["1.5", "2", "1e3"]), ("String", ['"x"', '""', '"a b"']), ("Boolean", ["true", "false"]),
           ("ID", ['"id1"', "5"]), ("Color", ["GREEN", "in"]), ("Blob", ['"raw"', "7", "{k: 1}"])]
OBJECTS = [("Leaf", ["{a: 1}", '{a: 2, b: "t"}', "{a: 3, c: RED}", "{a: 4, c: in}"]),
           ("Outer", ["{leaf: {a: 1}}", "{leaf: {a: 1, c: GREEN}, tags: [\"p\", \"q\"]}", "{leaf: {a: 1}, leaves: [{a: 5}, {a: 6, c: RED}]}", "{leaf: {a: 1}, grid: [[1, 2], [3]]}"])]


def cases():
    out = []
    for tname, lits in SCALARS + OBJECTS:
        for lit in lits:
            out.append((tname, lit, "plain"))
            out.append((f"{tname}!", lit, "nonnull"))
            out.append((f"[{tname}]", f"[{lit}]", "list"))
            out.append((f"[{tname}!]!", f"[{lit}, {lit}]", "list_nonnull"))
            out.append((f"[{tname}]", f"[{lit}, null]", "list_with_null"))
            out.append((f"[[{tname}]]", f"[[{lit}], []]", "nested_list"))
        out.append((tname, "null", "null"))
        out.append((f"[{tname}]", "[]", "empty_list"))
    return out


CASES = cases()
SDL = """
type Query {{ ping(d: D): Int }}
enum Color {{ RED GREEN in }}
scalar Blob
input Leaf {{ a: Int!, b: String, c: Color, d: Int = 9 }}
input Outer {{ leaf: Leaf!, tags: [String!], leaves: [Leaf!], grid: [[Int]] }}
input D {{ req: Int!, {fname}: {type} = {lit}, after: Int }}
"""


def norm(v):
    """python value read from the model -> plain JSON-like value comparable with graphql-core's coerced default"""
    import enum

    from pydantic import BaseModel

    if isinstance(v, BaseModel):
        return {k: norm(x) for k, x in v.model_dump(by_alias=True, exclude_unset=True).items()} if False else _dump_model(v)
    if isinstance(v, enum.Enum):
        return v.value
    if isinstance(v, list):
        return [norm(x) for x in v]
    if isinstance(v, dict):
        return {k: norm(x) for k, x in v.items()}
    return v


def _dump_model(m):
    out = {}
    for name in m.model_fields_set:
        fi = type(m).model_fields[name]
        out[fi.alias or name] = norm(getattr(m, name))
    return out


def strip_defaults(expected, got):
    """graphql-core fills nested input-object defaults (Leaf.d = 9) into the coerced default; the model leaves them unset
    (the server applies them): drop keys that only the coerced value has and whose value is that nested default"""
    if isinstance(expected, dict) and isinstance(got, dict):
        return {k: strip_defaults(v, got[k]) for k, v in expected.items() if k in got}, {k: v for k, v in got.items()}
    return expected, got


def eq(a, b):
    if isinstance(a, bool) or isinstance(b, bool):
        return isinstance(a, bool) and isinstance(b, bool) and a == b
    if isinstance(a, (int, float)) and isinstance(b, (int, float)):
        return a == b
    if isinstance(a, dict) and isinstance(b, dict):
        # nested defaults of the schema (Leaf.d = 9) may be materialised by graphql-core only
        keys = set(a) | set(b)
        for k in keys:
            if k in a and k in b:
                if not eq(a[k], b[k]):
                    return False
            elif k == "d" and (a.get(k, 9) == 9 and b.get(k, 9) == 9):
                continue
            else:
                return False
        return True
    if isinstance(a, list) and isinstance(b, list):
        return len(a) == len(b) and all(eq(x, y) for x, y in zip(a, b))
    return type(a) is type(b) and a == b


# name of the field carrying the default: unchanged / renamed under snake case / renamed always (keyword) - a renamed field gets
# Field(alias=...) and its default travels through another code path
FNAMES = ["f", "theField", "in"]


def run_case(i: int, snake: bool, fi: int = 0):
    """-> ("ok"|"gen_failed"|"import_failed"|"mismatch"|"invalid_case", detail)"""
    from graphql import build_schema

    tname, lit, shape = CASES[i]
    fname = FNAMES[fi]
    sdl = SDL.format(type=tname, lit=lit, fname=fname)
    try:
        schema = build_schema(sdl)
        from graphql import validate_schema

        if validate_schema(schema):
            return "invalid_case", "schema invalid"
    except Exception as e:
        return "invalid_case", str(e)[:100]
    expected = schema.type_map["D"].fields[fname].default_value
    res = gen.generate({"schema": sdl, "queries": "query Q { ping }", "config": {"convert_to_snake_case": snake, "target_package_name": f"pd{i}_{int(snake)}"}})
    if not res["ok"]:
        return "gen_failed", f"{res['exc_type']}: {res['exc_msg'][:120]}"
    base = tempfile.mkdtemp(prefix="vh06_", dir="/tmp")
    pk = f"pd{i}_{int(snake)}"
    try:
        d = os.path.join(base, pk)
        os.makedirs(d)
        for fn, src in res["files"].items():
            with open(os.path.join(d, fn), "w") as f:
                f.write(src)
        sys.path.insert(0, base)
        try:
            mod = importlib.import_module(pk + ".input_types")
        except Exception as e:
            return "import_failed", f"{type(e).__name__}: {str(e)[:150]}"
        finally:
            sys.path.remove(base)
        try:
            py = [n for n, f in mod.D.model_fields.items() if (f.alias or n) == fname]
            if len(py) != 1:
                return "mismatch", f"no model field with the wire name {fname!r}: {list(mod.D.model_fields)}"
            inst = mod.D(req=1)
            got = norm(getattr(inst, py[0]))
            inst2 = mod.D.model_validate({"req": 1})
            got2 = norm(getattr(inst2, py[0]))
        except Exception as e:
            return "mismatch", f"instantiation failed: {type(e).__name__}: {str(e)[:150]}"
        if not eq(expected, got) or not eq(expected, got2):
            return "mismatch", f"default {lit} of {tname}: schema coerces to {expected!r}, model reads {got!r}"
        # the unset field is not sent: the server applies its own default (C03 covers the transport)
        sent = inst.model_dump(by_alias=True, exclude_unset=True)
        if fname in sent:
            return "mismatch", f"field with default is sent although unset: {sent}"
        return "ok", ""
    finally:
        for k in [k for k in sys.modules if k == pk or k.startswith(pk + ".")]:
            del sys.modules[k]
        shutil.rmtree(base, ignore_errors=True)


def classify(i, status, detail) -> str:
    import re

    tname, lit, shape = CASES[i]
    base = tname.strip("[]!")
    if status in ("gen_failed", "import_failed", "mismatch"):
        if re.search(r"\bin\b", lit):
            return "C06-default-enum-keyword-name"
        if base in ("Leaf", "Outer") and ("RED" in lit or "GREEN" in lit):
            return "C06-default-object-with-enum"
        if base in ("Leaf", "Outer") and (shape in ("list", "list_nonnull", "list_with_null", "nested_list") or "leaves" in lit):
            return "C06-default-list-of-objects"
        if base == "Blob" and "{" in lit:
            return "C06-default-custom-scalar-object"
        if base == "ID" and re.search(r"(?<![\w\"])\d+(?![\w\"])", lit) and status == "mismatch":
            return "C06-default-id-int-literal"
    return ""


THOROUGH = os.environ.get("VERIF_C06_THOROUGH", "0") == "1"


def _defaults(i, snake, fname=0) -> bool:
    # NOTE: no contract here - CrossHair enforces the contracts of *called* functions and silently drops the caller's path
    k = pick(i, len(CASES))
    sn = True if snake else False
    # quick tier: the field name cycles with the case index; thorough tier: every case under every name
    fi = pick(fname, len(FNAMES)) if THOROUGH else (k + (1 if sn else 0)) % len(FNAMES)
    with NoTracing():
        with opened_auditwall():
            status, detail = run_case(k, sn, fi)
        if status in ("ok", "invalid_case"):
            return True
        kid = classify(k, status, detail)
    if kid:
        return known(kid)
    return False


def twin_defaults_object_reached(i: int, snake: bool) -> bool:
    """
    post: _
    """
    k = pick(i, len(CASES))
    with NoTracing():
        with opened_auditwall():
            status, detail = run_case(k, False)
    return not (status == "ok" and CASES[k][0] == "Leaf")


def parts_source(nparts: int = 16) -> str:
    out = ["from harness.C06_defaults import CASES, _defaults", "from harness._h import pick", ""]
    n = len(CASES)
    for p in range(nparts):
        lo, hi = p * n // nparts, (p + 1) * n // nparts
        out.append(f"def check_defaults_p{p}(j: int, snake: bool, fname: int) -> bool:\n    \"\"\"\n    post: _\n    \"\"\"\n"
                   f"    return _defaults({lo} + pick(j, {hi - lo}), snake, fname)\n")
    return "\n".join(out)
