"""C09 harness: pruning unused inputs / enums never removes something needed (symbolic dependency graphs)."""
import ast
import importlib
import os
import shutil
import sys
import tempfile
from collections import defaultdict

from harness._h import NoTracing, known, opened_auditwall, pick
from vlib import gen

NODES = ["A", "B", "C", "D"]


# ---- kernel: the real DFS closure on a symbolic graph (traced) ------------------------------------------------------
def closure_ref(adj, start):
    n = len(adj)
    reach = [[adj[i][j] or i == j for j in range(n)] for i in range(n)]
    for k in range(n):
        for i in range(n):
            for j in range(n):
                if reach[i][k] and reach[k][j]:
                    reach[i][j] = True
    return {NODES[j] for j in range(n) if reach[start][j]}


def dfs_kernel(adj, start) -> bool:
    from ariadne_codegen.client_generators.input_types import InputTypesGenerator

    n = len(adj)
    adj = [[True if x else False for x in row] for row in adj]
    g = InputTypesGenerator.__new__(InputTypesGenerator)
    g._dependencies = defaultdict(list)
    for i in range(n):
        for j in range(n):
            if adj[i][j]:
                g._dependencies[NODES[i]].append(NODES[j])
    st = pick(start, n)
    got = g._get_dependencies_of_type(NODES[st])
    return set(got) == closure_ref(adj, st) and len(got) == len(set(got))


def check_dfs_kernel3(e00: bool, e01: bool, e02: bool, e10: bool, e11: bool, e12: bool, e20: bool, e21: bool, e22: bool, start: int) -> bool:
    """
    post: _
    """
    return dfs_kernel([[e00, e01, e02], [e10, e11, e12], [e20, e21, e22]], start)


def kernel4_source() -> str:
    out = ["from harness.C09_pruning import dfs_kernel", ""]
    i = 0
    for a in (False, True):
        for b in (False, True):
            for c in (False, True):
                for d in (False, True):
                    out.append(f"def check_dfs_kernel4_p{i}(e02: bool, e03: bool, e12: bool, e13: bool, e20: bool, e21: bool, e23: bool, e30: bool, e31: bool, e32: bool, start: int) -> bool:\n"
                               f"    \"\"\"\n    post: _\n    \"\"\"\n"
                               f"    return dfs_kernel([[{a}, {b}, e02, e03], [{c}, {d}, e12, e13], [e20, e21, False, e23], [e30, e31, e32, False]], start)\n")
                    i += 1
    return "\n".join(out)


# ---- pipeline: symbolic schema/operation shape through the real generator ---------------------------------------------
def build_inputs(bits):
    """bits: dict of booleans -> (sdl, queries, needed inputs, needed enums)"""
    e = bits
    fields = {n: [] for n in NODES}
    edges = {"A": [], "B": [], "C": [], "D": []}

    def edge(a, b, name):
        fields[a].append(f"{name}: {b}")
        edges[a].append(b)

    if e["ab"]:
        edge("A", "B", "toB")
    if e["bc"]:
        edge("B", "C", "toC")
    if e["ca"]:
        edge("C", "A", "toA")
    if e["aa"]:
        edge("A", "A", "self")
    if e["cd"]:
        fields["C"].append("toD: [D!]")
        edges["C"].append("D")
    enum_of = {"A": [], "B": [], "C": [], "D": []}
    if e["b_e1"]:
        fields["B"].append("e1: E1 = X1")
        enum_of["B"].append("E1")
    if e["d_e2"]:
        fields["D"].append("e2: [E2!]")
        enum_of["D"].append("E2")
        # the same enums are also used by later-declared inputs (shared enum: the first user may be pruned, a later one kept)
        fields["C"].append("e2c: E2")
        enum_of["C"].append("E2")
    if e["b_e1"]:
        fields["D"].append("e1d: E1! = Y1")
        enum_of["D"].append("E1")
    for n in NODES:
        fields[n].append("v: Int")
    sdl = "\n".join(f"input {n} {{ {' '.join(fields[n])} }}" for n in NODES)
    sdl += "\nenum E1 { X1 Y1 }\nenum E2 { X2 }\nenum E3 { X3 }\nenum E4 { X4 }\nenum E5 { X5 }\nenum E6 { X6 }\n"
    sdl += "interface IObj { nested: Nest }\ntype Obj implements IObj { e3: E3 e6: E6 nested: Nest alt: IObj }\ntype Nest { e4: [E4] }\n"
    sdl += "type Query { f(a: A, c: C, d: D, e: E5): Obj }\n"
    vars_, args = [], []
    needed_enums = set()
    start = []
    if e["var_a"]:
        vars_.append("$a: A")
        args.append("a: $a")
        start.append("A")
    if e["var_c"]:
        vars_.append("$c: C")
        args.append("c: $c")
        start.append("C")
    if e["var_e5"]:
        vars_.append("$e: E5")
        args.append("e: $e")
        needed_enums.add("E5")
    sel = "__typename"
    frag = ""
    if e["res_e3"]:
        sel = "e3"
        needed_enums.add("E3")
    if e["frag_e4"]:
        if e["ca"]:
            # the enum is reachable only through a fragment on an INTERFACE, spread on a field of that interface type (base class)
            sel += " alt { ...Fi }"
            frag = "\nfragment Fi on IObj { nested { e4 } }"
        else:
            sel += " ...Fr"
            frag = "\nfragment Fr on Obj { nested { e4 } }"
        needed_enums.add("E4")
    q = f"query Q{'(' + ', '.join(vars_) + ')' if vars_ else ''} {{ f{'(' + ', '.join(args) + ')' if args else ''} {{ {sel} }} }}{frag}"
    if e["res_e3"] and e["bc"]:
        # a LATER operation whose result uses an enum an earlier operation already uses (E3) plus one used nowhere else (E6)
        q += "\nquery Q2 { f { e3 e6 } }"
        needed_enums.add("E6")
    needed_inputs = set()
    todo = list(start)
    while todo:
        x = todo.pop()
        if x not in needed_inputs:
            needed_inputs.add(x)
            todo.extend(edges[x])
    return sdl, q, needed_inputs, needed_enums, enum_of


def classes_of(src):
    out = {}
    for n in ast.parse(src).body:
        if isinstance(n, ast.ClassDef):
            out[n.name] = ast.unparse(n)
    return out


_N = [0]


def run_case(bits, all_inputs: bool, all_enums: bool):
    sdl, q, need_in, need_en, enum_of = build_inputs(bits)
    _N[0] += 1
    name = f"p09_{os.getpid()}_{_N[0]}"
    full = gen.generate({"schema": sdl, "queries": q, "config": {"target_package_name": name + "f"}})
    pruned = gen.generate({"schema": sdl, "queries": q, "config": {"target_package_name": name, "include_all_inputs": all_inputs, "include_all_enums": all_enums}})
    if not full["ok"] or not pruned["ok"]:
        return False, f"generation failed: {full.get('exc_msg')} / {pruned.get('exc_msg')}"
    fi, pi = classes_of(full["files"]["input_types.py"]), classes_of(pruned["files"]["input_types.py"])
    fe, pe = classes_of(full["files"]["enums.py"]), classes_of(pruned["files"]["enums.py"])
    want_in = set(NODES) if all_inputs else need_in
    retained_inputs = want_in
    want_en = set(fe) if all_enums else (need_en | {x for n in retained_inputs for x in enum_of[n]})
    if set(pi) != want_in:
        return False, f"inputs kept {sorted(pi)} != closure {sorted(want_in)}"
    if set(pe) != want_en:
        return False, f"enums kept {sorted(pe)} != closure {sorted(want_en)}"
    for k in pi:
        if pi[k] != fi[k]:
            return False, f"input {k} differs from its unpruned text"
    for k in pe:
        if pe[k] != fe[k]:
            return False, f"enum {k} differs from its unpruned text"
    for fn in pruned["files"]:
        if fn not in ("input_types.py", "enums.py", "__init__.py") and pruned["files"][fn] != full["files"][fn].replace(name + "f", name):
            return False, f"{fn} differs between pruned and unpruned generation"
    # the pruned package loads
    base = tempfile.mkdtemp(prefix="vh09_", dir="/tmp")
    try:
        os.makedirs(os.path.join(base, name))
        for fn, src in pruned["files"].items():
            with open(os.path.join(base, name, fn), "w") as f:
                f.write(src)
        sys.path.insert(0, base)
        try:
            for m in ["", ".client", ".input_types", ".enums", ".q"] + ([".q_2"] if "q_2.py" in pruned["files"] else []) + ([".fragments"] if "fragments.py" in pruned["files"] else []):
                importlib.import_module(name + m)
        except Exception as e:
            return False, f"pruned package does not load: {type(e).__name__}: {str(e)[:150]}"
        finally:
            sys.path.remove(base)
            for k in [k for k in sys.modules if k == name or k.startswith(name + ".")]:
                del sys.modules[k]
    finally:
        shutil.rmtree(base, ignore_errors=True)
    return True, ""


KEYS = ["ab", "bc", "ca", "aa", "cd", "b_e1", "d_e2", "var_a", "var_c", "var_e5", "res_e3", "frag_e4"]


def _pipeline(vals, all_inputs, all_enums) -> bool:
    bits = {k: (True if v else False) for k, v in zip(KEYS, vals)}
    ai, ae = (True if all_inputs else False), (True if all_enums else False)
    with NoTracing():
        with opened_auditwall():
            ok, _ = run_case(bits, ai, ae)
    return ok


def parts_source(quick: bool) -> str:
    """partition by (var_a, var_c, all_inputs, all_enums) -> 16 conditions; in the quick tier some bits are tied"""
    out = ["from harness.C09_pruning import _pipeline", ""]
    i = 0
    for va in (False, True):
        for vc in (False, True):
            for ai in (False, True):
                for ae in (False, True):
                    if quick:
                        out.append(f"def check_prune_p{i}(ab: bool, bc: bool, ca: bool, cd: bool, b_e1: bool, res_e3: bool) -> bool:\n    \"\"\"\n    post: _\n    \"\"\"\n"
                                   f"    return _pipeline([ab, bc, ca, ab and ca, cd, b_e1, cd, {va}, {vc}, b_e1, res_e3, (not res_e3) and b_e1], {ai}, {ae})\n")
                    else:
                        out.append(f"def check_prune_p{i}(ab: bool, bc: bool, ca: bool, aa: bool, cd: bool, b_e1: bool, d_e2: bool, var_e5: bool, res_e3: bool, frag_e4: bool) -> bool:\n    \"\"\"\n    post: _\n    \"\"\"\n"
                                   f"    return _pipeline([ab, bc, ca, aa, cd, b_e1, d_e2, {va}, {vc}, var_e5, res_e3, frag_e4], {ai}, {ae})\n")
                    i += 1
    return "\n".join(out)


def twin_transitive_enum_reached(ab: bool, bc: bool, ca: bool, cd: bool, b_e1: bool, res_e3: bool) -> bool:
    """
    post: _
    """
    bits = {k: (True if v else False) for k, v in zip(KEYS, [ab, bc, ca, False, cd, b_e1, cd, True, False, False, res_e3, False])}
    with NoTracing():
        with opened_auditwall():
            ok, _ = run_case(bits, False, False)
            sdl, q, need_in, need_en, enum_of = build_inputs(bits)
    return not (ok and "D" in need_in and bits["b_e1"])
