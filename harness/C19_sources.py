"""C19 harness: the schema source (one SDL file / directory tree in any split / introspection) does not change the client."""
import ast
import os

import httpx

from harness._h import NoTracing, known, opened_auditwall, pick
from vlib import gen

DEFS = [
    "type Query { user(f: Filter, c: Color = RED): User! things: [Thing!]! }",
    "interface Node { id: ID! }",
    "type User implements Node { id: ID! name: String color: Color }\ntype Bot implements Node { id: ID! model: String! }",
    "union Thing = User | Bot",
    "enum Color { RED GREEN }",
    "input Filter { limit: Int! = 10, tag: String = \"t\", colors: [Color!] = [RED], nested: Filter, old: Int @deprecated(reason: \"x\"), req: ID! }",
]
OPS = """
query GetUser($f: Filter, $c: Color) { user(f: $f, c: $c) @mixin(from: ".mixins", import: "MixA") { id name color } }
query Things { things { __typename ... on User { name } ... on Bot { model } } }
"""
LOCS = ["a.graphql", "sub/a.graphql", "more.graphql/b.defs.graphqls", "sub/c.gql", "zz/deep/d.graphql"]  # the third one has a dotted stem and lives in a directory named like a GraphQL file;  # two files of one name in different directories come first
NLOC = int(os.environ.get("VERIF_C19_LOCS", "3"))
NDEF = len(DEFS)


def class_sets(files):
    out = {}
    for fn, src in files.items():
        if not fn.endswith(".py") or fn in ("__init__.py",):
            continue
        try:
            tree = ast.parse(src)
        except SyntaxError:
            out[fn] = "SYNTAX ERROR"
            continue
        items = set()
        for n in tree.body:
            if isinstance(n, ast.ClassDef):
                items.add(ast.unparse(n))
            elif isinstance(n, (ast.FunctionDef, ast.AsyncFunctionDef)):
                items.add(ast.unparse(n))
        out[fn] = items
    return out


_REF = {}


def reference():
    if "ref" not in _REF:
        r = gen.generate({"schema": "\n".join(DEFS), "queries": OPS})
        assert r["ok"], r
        _REF["ref"] = r["files"]
    return _REF["ref"]


ENDINGS = ["\n", "", "\n# trailing comment", "  ", "\r\n"]


def split_case(assign, ending=0):
    files = {}
    for d, loc in zip(DEFS, assign):
        files.setdefault(LOCS[loc], []).append(d)
    # how each file ends is part of the input space: no final newline, a final comment, trailing blanks, CRLF
    tree = [(path, "\n".join(parts) + ENDINGS[ending]) for path, parts in files.items()]
    r = gen.generate({"schema": tree, "queries": OPS})
    if not r["ok"]:
        return [f"generation failed for the split {assign}: {r['exc_type']}: {r['exc_msg'][:150]}"]
    ref = class_sets(reference())
    got = class_sets(r["files"])
    probs = []
    for fn in ref:
        if got.get(fn) != ref[fn]:
            probs.append(f"{fn}: set of class definitions differs from the single-file source")
    if r["files"]["client.py"] != reference()["client.py"]:
        probs.append("client.py differs")
    return probs


def _split_check(vals, ending=0) -> bool:
    assign = [pick(v, NLOC) for v in vals]
    # file endings are explored for the assignments whose 3rd and 4th definition sit in the first file (a ninth of all
    # partitions); the remaining assignments use a final newline
    e = pick(ending, len(ENDINGS)) if (assign[2] == 0 and assign[3] == 0) else 0
    with NoTracing():
        with opened_auditwall():
            probs = split_case(assign, e)
    return not probs


def parts_source() -> str:
    out = ["from harness.C19_sources import _split_check", ""]
    for a in range(NLOC):
        for b in range(NLOC):
            out.append(f"def check_split_{a}{b}(d2: int, d3: int, d4: int, d5: int, ending: int) -> bool:\n    \"\"\"\n    post: _\n    \"\"\"\n    return _split_check([{a}, {b}, d2, d3, d4, d5], ending)\n")
    return "\n".join(out)


# ---- introspection vs SDL ---------------------------------------------------------------------------------------------
def input_model_facts(src):
    """{class: {field: (required, default source)}} from an emitted input_types.py"""
    out = {}
    for n in ast.parse(src).body:
        if isinstance(n, ast.ClassDef):
            d = {}
            for st in n.body:
                if isinstance(st, ast.AnnAssign):
                    name = st.target.id
                    default = None
                    required = st.value is None
                    if st.value is not None:
                        v = st.value
                        if isinstance(v, ast.Call) and ast.unparse(v.func) == "Field":
                            kws = {k.arg: ast.unparse(k.value) for k in v.keywords}
                            required = "default" not in kws and "default_factory" not in kws
                            default = kws.get("default") or kws.get("default_factory")
                            name = ast.literal_eval(kws["alias"]) if "alias" in kws else name
                        else:
                            default = ast.unparse(v)
                    d[name] = (required, default)
            out[n.name] = d
    return out


def introspection_case(with_defaults_schema: bool):
    sdl = "\n".join(DEFS)
    a = gen.generate({"schema": sdl, "queries": OPS})
    b = gen.generate({"queries": OPS, "config": {"remote_schema_url": "http://x/graphql"}, "introspection": {"sdl": sdl}})
    if not a["ok"] or not b["ok"]:
        return ["generation failed: " + str(a.get("exc_msg")) + " / " + str(b.get("exc_msg"))], []
    probs, input_probs = [], []
    ca, cb = class_sets(a["files"]), class_sets(b["files"])
    for fn in ca:
        if fn == "input_types.py":
            continue
        if ca[fn] != cb.get(fn):
            probs.append(f"{fn}: differs between SDL and introspected source")
    fa, fb = input_model_facts(a["files"]["input_types.py"]), input_model_facts(b["files"]["input_types.py"])
    for cls, fields in fa.items():
        for f, (req, dflt) in fields.items():
            if f not in fb.get(cls, {}):
                input_probs.append(("field_missing", f"{cls}.{f} missing with the introspected source"))
                continue
            rb, db = fb[cls][f]
            if req != rb:
                input_probs.append(("required_differs", f"{cls}.{f}: required {req} (SDL) vs {rb} (introspected)"))
            if dflt != db:
                input_probs.append(("default_differs", f"{cls}.{f}: default {dflt} (SDL) vs {db} (introspected)"))
    return probs, input_probs


def check_introspection_equals_sdl(x: bool) -> bool:
    """
    post: _
    """
    with NoTracing():
        with opened_auditwall():
            probs, iprobs = introspection_case(True)
        kinds = {k for k, _ in iprobs}
    if probs:
        return False
    if iprobs:
        if kinds <= {"field_missing", "required_differs", "default_differs"}:
            return known("C19-introspection-loses-defaults")
        return False
    return True


# ---- introspection failures surface as IntrospectionError; headers / verify flag are what is sent ----------------------
class StubResponse:
    def __init__(self, status_code, json_ok, body):
        self.status_code, self._json_ok, self._body = status_code, json_ok, body

    @property
    def is_success(self):
        return httpx.codes.is_success(self.status_code)

    def json(self):
        if not self._json_ok:
            raise ValueError("no json")
        return self._body


BODIES = [None, 7, "s", [1], {}, {"errors": [{"message": "x"}]}, {"data": None}, {"data": [1]}, {"data": {"__schema": {}}, "errors": [{"message": "e"}]},
          {"data": {"__schema": {"ok": 1}}}, {"data": {"__schema": {"ok": 1}}, "errors": []}, {"data": {"__schema": {"ok": 1}}, "errors": None}]
VALID = {9, 10, 11}


STATUSES = [199, 200, 204, 299, 300, 404, 500]


def check_introspection_failures(status_i: int, json_ok: bool, body: int, raise_kind: int, verify: bool) -> bool:
    """
    post: _
    """
    from ariadne_codegen import schema as sch
    from ariadne_codegen.exceptions import IntrospectionError

    # the status code is one of 7 boundary representatives: a symbolic int would flow into the error message f-string,
    # which CrossHair cannot finish (measured: not confirmed in 300 s); httpx.codes.is_success itself is covered symbolically by C12
    status = STATUSES[pick(status_i, len(STATUSES))]
    b = pick(body, len(BODIES))
    rk = pick(raise_kind, 4)
    calls = []

    def post(url, **kw):
        calls.append((url, kw))
        if rk == 1:
            raise httpx.InvalidURL("bad")
        if rk == 2:
            raise httpx.UnsupportedProtocol("Request URL is missing an 'http://' or 'https://' protocol.")
        if rk == 3:
            raise httpx.ConnectError("[Errno -2] Name or service not known")
        return StubResponse(status, True if json_ok else False, BODIES[b])

    old = sch.httpx.post
    old_q = sch.get_introspection_query
    sch.httpx.post = post
    sch.get_introspection_query = lambda **kw: "query IntrospectionQuery { __schema { queryType { name } } }"  # building the real text is irrelevant here
    try:
        try:
            data = sch.introspect_remote_schema("http://h/graphql", headers={"A": "1"}, verify_ssl=True if verify else False)
            outcome = ("ok", data)
        except IntrospectionError:
            outcome = ("introspection_error",)
        except Exception as e:
            outcome = ("other", type(e).__name__)
    finally:
        sch.httpx.post = old
        sch.get_introspection_query = old_q
    sent_ok = len(calls) == 1 and calls[0][0] == "http://h/graphql" and calls[0][1].get("headers") == {"A": "1"} and calls[0][1].get("verify") == (True if verify else False) \
        and isinstance(calls[0][1].get("json", {}).get("query"), str) and not calls[0][1].get("follow_redirects")  # a redirect is a failure, not a hop
    should_succeed = rk == 0 and (200 <= status <= 299) and json_ok and b in VALID
    if should_succeed:
        return sent_ok and outcome == ("ok", BODIES[b]["data"])
    if sent_ok and rk in (2, 3) and outcome == ("other", ["", "", "UnsupportedProtocol", "ConnectError"][rk]):
        # only httpx.InvalidURL is translated: a URL without scheme / an unreachable host escapes as the raw httpx exception
        return known("C19-bad-url-raw-httpx-error")
    return sent_ok and outcome == ("introspection_error",)


class _FmtOpaque:
    """Status code whose *rendering* is stubbed (str/format return a constant: the message text is not part of the property) while
    comparisons, int() and index() go to the symbolic int."""
    __slots__ = ("v",)

    def __init__(self, v):
        self.v = v

    def __str__(self):
        return "<status>"

    __repr__ = __str__

    def __format__(self, spec):
        return "<status>"

    def __int__(self):
        return self.v

    __index__ = __int__

    def __eq__(self, o):
        return self.v == o

    def __ne__(self, o):
        return self.v != o

    def __lt__(self, o):
        return self.v < o

    def __le__(self, o):
        return self.v <= o

    def __gt__(self, o):
        return self.v > o

    def __ge__(self, o):
        return self.v >= o

    def __floordiv__(self, o):
        return self.v // o

    def __hash__(self):
        return hash(self.v)


class _SymStatusResponse:
    def __init__(self, status, body):
        self._s, self._body = status, body
        self.status_code = _FmtOpaque(status)

    @property
    def is_success(self):  # httpx.Response.is_success is codes.is_success(status_code) == 200 <= value <= 299 (httpx/_status_codes.py)
        return 200 <= self._s <= 299

    @property
    def is_error(self):
        return 400 <= self._s <= 599

    @property
    def is_redirect(self):
        return 300 <= self._s <= 399

    def json(self):
        return self._body


def check_introspection_status_symbolic(status: int) -> bool:
    """
    pre: 100 <= status <= 599
    post: _
    """
    # the status code as a symbolic int over the whole HTTP range, everything else held valid (JSON ok, valid body, no transport error):
    # a valid answer is accepted iff the status is 2xx, every other status raises IntrospectionError
    from ariadne_codegen import schema as sch
    from ariadne_codegen.exceptions import IntrospectionError

    old = sch.httpx.post
    old_q = sch.get_introspection_query
    sch.httpx.post = lambda url, **kw: _SymStatusResponse(status, BODIES[9])
    sch.get_introspection_query = lambda **kw: "query Q { __typename }"
    try:
        try:
            data = sch.introspect_remote_schema("http://h/graphql")
            outcome = "ok" if data == BODIES[9]["data"] else "wrong_data"
        except IntrospectionError:
            outcome = "introspection_error"
        except Exception as e:  # noqa: BLE001
            outcome = "other:" + type(e).__name__
    finally:
        sch.httpx.post = old
        sch.get_introspection_query = old_q
    if 200 <= status <= 299:
        return outcome == "ok"
    return outcome == "introspection_error"


MALFORMED_DATA = [{"__schema": {"ok": 1}}, {"__schema": None}, {}, {"__schema": {"queryType": {"name": "Q"}, "types": "x", "directives": []}},
                  {"__schema": {"queryType": {"name": "Q"}, "types": [{"kind": "OBJECT"}], "directives": []}}]


def check_malformed_introspection_data(which: int) -> bool:
    """
    post: _
    """
    from ariadne_codegen import schema as sch
    from ariadne_codegen.exceptions import IntrospectionError

    w = pick(which, len(MALFORMED_DATA))
    with NoTracing():
        old = sch.httpx.post
        sch.httpx.post = lambda url, **kw: StubResponse(200, True, {"data": MALFORMED_DATA[w]})
        try:
            try:
                sch.get_graphql_schema_from_url("http://h/graphql")
                outcome = "accepted"
            except IntrospectionError:
                outcome = "introspection_error"
            except Exception as e:  # noqa: BLE001
                outcome = "other:" + type(e).__name__
        finally:
            sch.httpx.post = old
    if outcome == "introspection_error":
        return True
    if outcome.startswith("other:"):
        # a 2xx JSON answer whose data is not an introspection result reaches build_client_schema, whose TypeError / KeyError escapes
        return known("C19-malformed-introspection-data-raw-error")
    return False


def check_headers_env(kind: int, present: bool) -> bool:
    """
    post: _
    """
    from ariadne_codegen.exceptions import InvalidConfiguration
    from ariadne_codegen.settings import resolve_headers

    k = pick(kind, 3)
    key = "VERIF_C19_TOKEN"
    with NoTracing():
        if present:
            os.environ[key] = "secret"
        else:
            os.environ.pop(key, None)
        headers = [{"Authorization": "$" + key, "X": "plain"}, {"X": "plain"}, {"Authorization": "Bearer x$y"}][k]
        try:
            got = ("ok", resolve_headers(dict(headers)))
        except InvalidConfiguration:
            got = ("invalid",)
        except Exception as e:
            got = ("other", type(e).__name__)
        finally:
            os.environ.pop(key, None)
        if k == 0:
            want = ("ok", {"Authorization": "secret", "X": "plain"}) if present else ("invalid",)
        else:
            want = ("ok", headers)
        return got == want


def twin_introspection_valid_reached(status_i: int, json_ok: bool, body: int, raise_kind: int, verify: bool) -> bool:
    """
    post: _
    """
    from ariadne_codegen import schema as sch

    status = STATUSES[pick(status_i, len(STATUSES))]
    b = pick(body, len(BODIES))
    old = sch.httpx.post
    old_q = sch.get_introspection_query
    sch.httpx.post = lambda url, **kw: StubResponse(status, True if json_ok else False, BODIES[b])
    sch.get_introspection_query = lambda **kw: "query Q { __typename }"
    try:
        try:
            sch.introspect_remote_schema("http://h/graphql")
            ok = True
        except Exception:
            ok = False
    finally:
        sch.httpx.post = old
        sch.get_introspection_query = old_q
    return not ok
