"""C14 harness: the custom operation builder emits valid, faithful, history-free documents.

A package with enable_custom_operations is generated once; per path CrossHair chooses a builder expression (1-2 top-level
fields out of 12 shapes) and a history prefix of previously built operations; each scenario runs in a fresh interpreter
(class-level builder objects are shared state) and the captured document is judged by graphql-core."""
import json
import os
import subprocess
import sys
import tempfile

from harness._h import NoTracing, known, opened_auditwall, pick
from vlib import gen

SDL = """
scalar Stamp
type Query { events(after: Stamp!, before: Stamp, third: Stamp): [Post] window(start: Stamp!, end: Stamp): [Post] user(id: ID!, tags: [String!], f: Filter): User users(first: Int = 3, ids: [ID!]!): [User!]! search(text: String!): [Thing!]! me: User node(id: ID!): Node }
type Mutation { rename(id: ID!, newName: String!): User stamp(at: Stamp!, until: Stamp!): Post }
interface Node { id: ID! }
type User implements Node { id: ID! userName: String friends(first: Int, kinds: [Kind!]): [User!] bestFriend(depth: Int): User posts(after: String, since: Stamp): [Post] }
type Post implements Node { id: ID! title: String author: User comments(limit: Int!): [String] posts(after: String!, since: Stamp!): [Post] }
union Thing = User | Post
enum Kind { A B }
input Filter { a: Int, kind: Kind }
"""
# builder expressions as source text evaluated in the child (P = generated package namespace)
SHAPES = [
    ("me", 'Query.me().fields(UserFields.id)', {}),
    ("user", 'Query.user(id="1").fields(UserFields.id, UserFields.user_name)', {"id": ("ID!", "1")}),
    ("user_tags", 'Query.user(id="1", tags=["a", "b"]).fields(UserFields.id)', {"id": ("ID!", "1"), "tags": ("[String!]", ["a", "b"])}),
    ("users_ids", 'Query.users(ids=["1"], first=2).fields(UserFields.id)', {"ids": ("[ID!]!", ["1"]), "first": ("Int", 2)}),
    ("friends", 'Query.me().fields(UserFields.friends(first=1).fields(UserFields.id))', {"first": ("Int", 1)}),
    ("best_friend", 'Query.me().fields(UserFields.best_friend(depth=1).fields(UserFields.id))', {"depth": ("Int", 1)}),
    ("deep", 'Query.me().fields(UserFields.posts(after="x").fields(PostFields.title, PostFields.comments(limit=2)))', {"after": ("String", "x"), "limit": ("Int!", 2)}),
    ("union", 'Query.search(text="q").on("User", UserFields.id).on("Post", PostFields.title)', {"text": ("String!", "q")}),
    ("alias", 'Query.me().alias("viewer").fields(UserFields.id.alias("uid"))', {}),
    ("input", 'Query.user(id="1", f=Filter(a=1, kind=Kind.A)).fields(UserFields.id)', {"id": ("ID!", "1"), "f": ("Filter", {"a": 1, "kind": "A"})}),
    ("none_omitted", 'Query.me().fields(UserFields.friends(first=None).fields(UserFields.id))', {}),
    ("iface", 'Query.node(id="7").fields(NodeInterface.id).on("User", UserFields.user_name)', {"id": ("ID!", "7")}),
    ("siblings_same_arg", 'Query.me().fields(UserFields.friends(first=1).alias("a").fields(UserFields.id), UserFields.friends(first=2).alias("b").fields(UserFields.id))',
     {"first": ("Int", 1), "first#2": ("Int", 2)}),
    ("siblings_three", 'Query.me().fields(UserFields.friends(first=1).alias("a").fields(UserFields.id), UserFields.friends(first=2).alias("b").fields(UserFields.id), UserFields.friends(first=3).alias("c").fields(UserFields.id))',
     {"first": ("Int", 1), "first#2": ("Int", 2), "first#3": ("Int", 3)}),
    ("same_arg_parent_child", 'Query.users(ids=None, first=5).fields(UserFields.friends(first=6).fields(UserFields.id))' if False else
     'Query.user(id="9").fields(UserFields.posts(after="p").fields(PostFields.author().fields(UserFields.posts(after="q").fields(PostFields.title))))',
     {"id": ("ID!", "9"), "after": ("String", "p"), "after#2": ("String", "q")}),
    ("iface_member_args", 'Query.node(id="7").fields(NodeInterface.id).on("User", UserFields.friends(first=2).fields(UserFields.id))', {"id": ("ID!", "7"), "first": ("Int", 2)}),
    ("union_member_args", 'Query.search(text="q").on("User", UserFields.friends(first=4).fields(UserFields.id)).on("Post", PostFields.comments(limit=1))',
     {"text": ("String!", "q"), "first": ("Int", 4), "limit": ("Int!", 1)}),
    # the same field name, result type and argument NAMES on two types, with different argument types (User.posts / Post.posts)
    ("user_posts", 'Query.me().fields(UserFields.posts(after="x", since="s").fields(PostFields.title))', {"after": ("String", "x"), "since": ("Stamp", '"s"')}),
    ("post_posts", 'Query.node(id="7").on("Post", PostFields.posts(after="y", since="z").fields(PostFields.id))', {"id": ("ID!", "7"), "after": ("String!", "y"), "since": ("Stamp!", '"z"')}),
    ("two_members_same_arg", 'Query.search(text="q").on("User", UserFields.posts(after="u", since="s").fields(PostFields.id)).on("Post", PostFields.posts(after="p", since="z").fields(PostFields.id))',
     {"text": ("String!", "q"), "after": ("String", "u"), "since": ("Stamp", '"s"'), "after#2": ("String!", "p"), "since#2": ("Stamp!", '"z"')}),
    ("scalar_falsy", 'Query.window(start="", end="").fields(PostFields.id)', {"start": ("Stamp!", '""'), "end": ("Stamp", '""')}),
    ("scalar_subfield", 'Query.me().fields(UserFields.posts(since="s").fields(PostFields.title))', {"since": ("Stamp", '"s"')}),
    # a scalar configured with serialize=json.dumps: every argument of it travels as dumps(value), the first one and the later ones
    ("scalar_one", 'Query.events(after="a").fields(PostFields.id)', {"after": ("Stamp!", '"a"')}),
    ("scalar_three", 'Query.events(after="a", before="b", third="c").fields(PostFields.title)', {"after": ("Stamp!", '"a"'), "before": ("Stamp", '"b"'), "third": ("Stamp", '"c"')}),
]
NSH = len(SHAPES)
# second top-level field: every shape in the thorough tier, eight representative ones in the quick tier
_QUICK_SECOND = ("user", "friends", "union", "alias", "input", "siblings_same_arg", "scalar_three", "iface")
SECOND = [k for k, sh in enumerate(SHAPES) if os.environ.get("VERIF_C14_QUICK", "1") != "1" or sh[0] in _QUICK_SECOND]
PREFIXES = [[], [8], [1], [8, 1], [5, 6]] if os.environ.get("VERIF_C14_QUICK", "1") != "1" else [[], [8], [5, 6]]  # histories of previously built operations
KNOWN_SHAPES = {"user_tags": "C14-list-type-dropped", "users_ids": "C14-list-type-dropped", "best_friend": "C14-snake-name-as-graphql-name",
                "deep": "C14-deep-variables-undeclared", "same_arg_parent_child": "C14-deep-variables-undeclared",
                "scalar_one": "C14-serialize-called-on-none"}

CHILD = r'''
import sys, json, importlib
sys.path.insert(0, sys.argv[1])
spec = json.loads(sys.argv[2])
P = importlib.import_module("p14")
ns = {}
for m in ("custom_queries", "custom_mutations", "custom_fields", "custom_typing_fields", "input_types", "enums"):
    ns.update(vars(importlib.import_module("p14." + m)))
cap = []
def make_client():
    c = P.Client.__new__(P.Client)
    def execute(query=None, variables=None, operation_name=None, **kw):
        cap.append({"query": query, "variables": variables, "operation_name": operation_name})
        return "RESP"
    if spec["is_async"]:
        async def aexecute(query=None, variables=None, operation_name=None, **kw):
            return execute(query, variables, operation_name)
        c.execute = aexecute
    else:
        c.execute = execute
    c.get_data = lambda r: {}
    return c
def run(exprs, name):
    c = make_client()
    fields = [eval(e, ns) for e in exprs]
    r = c.query(*fields, operation_name=name)
    if hasattr(r, "send"):
        try:
            r.send(None)
        except StopIteration:
            pass
out = {}
try:
    for i, pre in enumerate(spec["prefix"]):
        run([pre], f"Pre{i}")
    if spec.get("reuse"):
        # the very same builder objects are sent twice: alone first (last object at position 0), then all together
        objs = [eval(e, ns) for e in spec["exprs"]]
        ns["_objs"] = objs
        run([f"_objs[{len(objs) - 1}]"], "Earlier")
        del cap[:]
        run([f"_objs[{i}]" for i in range(len(objs))], "Op")
    else:
        del cap[:]
        run(spec["exprs"], "Op")
    v = cap[0]["variables"]
    def jn(x):
        import enum
        from pydantic import BaseModel
        if isinstance(x, BaseModel): return x.model_dump(by_alias=True, exclude_unset=True, mode="json")
        if isinstance(x, enum.Enum): return x.value
        if isinstance(x, list): return [jn(y) for y in x]
        if isinstance(x, dict): return {k: jn(y) for k, y in x.items()}
        return x
    out = {"query": cap[0]["query"], "variables": jn(v), "operation_name": cap[0]["operation_name"]}
except Exception as e:
    out = {"error": type(e).__name__ + ": " + str(e)[:200]}
print("@@OUT@@" + json.dumps(out))
'''

SETUP_ERROR = ""
_BASES = {}
try:
    with opened_auditwall():
        for _async in (False, True):
            _r = gen.generate({"schema": SDL, "queries": "query Q { me { id } }", "config": {"enable_custom_operations": True, "async_client": _async, "target_package_name": "p14",
                                                                                                    "scalars": {"Stamp": {"type": "str", "serialize": "json.dumps"}}}})
            if not _r["ok"]:
                raise RuntimeError(f"generation failed: {_r['exc_type']}: {_r['exc_msg']}")
            _b = tempfile.mkdtemp(prefix="vh14_", dir="/tmp")
            os.makedirs(os.path.join(_b, "p14"))
            for _fn, _src in _r["files"].items():
                with open(os.path.join(_b, "p14", _fn), "w") as _f:
                    _f.write(_src)
            with open(os.path.join(_b, "child.py"), "w") as _f:
                _f.write(CHILD)
            _BASES[_async] = _b
except Exception as _e:
    SETUP_ERROR = f"{type(_e).__name__}: {_e}"


def run_child(is_async, exprs, prefix, reuse=False):
    b = _BASES[is_async]
    spec = json.dumps({"exprs": exprs, "prefix": prefix, "is_async": is_async, "reuse": reuse})
    env = dict(os.environ)
    p = subprocess.run([sys.executable, os.path.join(b, "child.py"), b, spec], capture_output=True, text=True, env=env, timeout=120)
    if "@@OUT@@" not in p.stdout:
        return {"error": "child crashed: " + (p.stderr or p.stdout)[-300:]}
    return json.loads(p.stdout.split("@@OUT@@", 1)[1])


def judge(out, shapes):
    """-> list of problems for the captured document"""
    from graphql import OperationDefinitionNode, build_schema, parse, print_ast, validate

    if "error" in out:
        return [("error", out["error"])]
    probs = []
    schema = build_schema(SDL)
    try:
        doc = parse(out["query"])
    except Exception as e:
        return [("invalid", f"document does not parse: {str(e)[:100]}")]
    errs = validate(schema, doc)
    if errs:
        probs.append(("invalid", "; ".join(e.message for e in errs)[:300]))
    op = doc.definitions[0]
    declared = {vd.variable.name.value: print_ast(vd.type) for vd in op.variable_definitions}
    if len(declared) != len(op.variable_definitions):
        probs.append(("vars", "a variable is declared twice"))
    # every argument value set by the caller is bound to a declared variable of the argument's exact type
    expected_pairs = []
    for sh in shapes:
        for arg, (typ, val) in SHAPES[sh][2].items():
            expected_pairs.append((arg.split("#")[0], typ, val))
    values = out["variables"] or {}
    if sorted(values) != sorted(declared):
        probs.append(("vars", f"declared {sorted(declared)} but values for {sorted(values)}"))
    used = []
    for arg, typ, val in expected_pairs:
        cands = [k for k in declared if (k == arg or k.startswith(arg + "_")) and k not in used and values.get(k) == val]
        if not cands:
            probs.append(("vars", f"argument {arg}={val!r} is not bound to a declared variable"))
            continue
        used.append(cands[0])
        if declared[cands[0]] != typ:
            probs.append(("type", f"variable ${cands[0]} declared {declared[cands[0]]} but the argument type is {typ}"))
    if len(declared) != len(expected_pairs):
        probs.append(("vars", f"{len(declared)} variables declared, {len(expected_pairs)} arguments were set"))
    return probs


def _check(is_async, n_top, a, b, pfx, reuse=False) -> bool:
    if SETUP_ERROR:
        return False
    nt = pick(n_top, 2) + 1
    s0 = pick(a, NSH)
    shapes = [s0] + ([SECOND[pick(b, len(SECOND))]] if nt == 2 else [])
    pi = pick(pfx, len(PREFIXES))
    # re-sending the same builder objects is explored without a prefix of other operations
    ru = (True if reuse else False) if pi == 0 else False
    with NoTracing():
        with opened_auditwall():
            exprs = [SHAPES[s][1] for s in shapes]
            if len(exprs) == 2:
                exprs[1] = exprs[1] + '.alias("second")'  # two root fields with different arguments need distinct response keys
            out = run_child(is_async, exprs, [SHAPES[s][1] for s in PREFIXES[pi]], ru)
            probs = judge(out, shapes)
            ref = run_child(is_async, exprs, []) if (PREFIXES[pi] or ru) else out
            history = (out.get("query"), out.get("variables")) != (ref.get("query"), ref.get("variables"))
        names = [SHAPES[s][0] for s in shapes]
        kids = {KNOWN_SHAPES[n] for n in names if n in KNOWN_SHAPES}
    if history:
        # the alias shape mutates class-level field objects; any later operation in the same process inherits the alias
        if 8 in PREFIXES[pi]:
            return known("C14-alias-mutates-shared-field")
        return False
    if probs:
        if kids and all(k in ("invalid", "type", "vars") for k, _ in probs):
            r = True
            for k in sorted(kids):
                r = known(k)
            return r
        return False
    return True


def parts_source() -> str:
    out = ["from harness.C14_builder import _check", ""]
    for s0 in range(NSH):
        out.append(f"def check_builder_s{s0}(is_async: bool, n_top: int, b: int, pfx: int, reuse: bool) -> bool:\n    \"\"\"\n    post: _\n    \"\"\"\n    return _check(True if is_async else False, n_top, {s0}, b, pfx, reuse)\n")
    return "\n".join(out)


def twin_two_fields_same_arg(b: int) -> bool:
    """
    post: _
    """
    if SETUP_ERROR:
        return True
    with NoTracing():
        with opened_auditwall():
            out = run_child(False, [SHAPES[1][1], SHAPES[1][1] + '.alias("second")'], [])
            probs = judge(out, [1, 1])
    return bool(probs)
