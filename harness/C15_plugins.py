"""C15 harness: bundled plugins preserve client behaviour apart from their documented change (subsets x orders)."""
import importlib
import inspect
import itertools
import json
import os
import shutil
import sys
import tempfile

from harness._h import NoTracing, known, opened_auditwall, pick
from vlib import gen

P = "ariadne_codegen.contrib."
PLUGINS = {
    "S": P + "shorter_results.ShorterResultsPlugin",
    "E": P + "extract_operations.ExtractOperationsPlugin",
    "F": P + "client_forward_refs.ClientForwardRefsPlugin",
    "N": P + "no_reimports.NoReimportsPlugin",
    "I": "vplug.IdentityPlugin",
}
VPLUG = '''
from ariadne_codegen.plugins.base import Plugin
class IdentityPlugin(Plugin):
    pass
class MarkA(Plugin):
    def generate_client_code(self, generated_code):
        return generated_code + "\\n# mark A"
class MarkB(Plugin):
    def generate_client_code(self, generated_code):
        return generated_code + "\\n# mark B"
'''
SDL = """
type Query { user: User! me: User node(id: ID): Node thing: Thing users: [User!]! when(d: Date): Date count: Int! favourite: Color shades: [Color!] echo(query: String, variables: Int, response: ID, data: Int): Int }
type Mutation { rename(name: String!, f: Filter): User up(f: Upload!, a: Att): Boolean }
scalar Upload
input Att { file: Upload, note: String }
type Subscription { tick: Int! }
interface Node { id: ID! }
type User implements Node { id: ID! name: String color: Color }
type Bot implements Node { id: ID! model: String! }
union Thing = User | Bot
enum Color { RED GREEN }
scalar Date
input Filter { a: Int, c: Color }
"""
OPS = """
query One { user { id name color } }
query Many { user { id } me { name } }
query Un { thing { __typename ... on User { name } ... on Bot { model } } }
query Fr { user { ...UF } }
query Li { users { id } }
query Sc($d: Date) { when(d: $d) }
query Cnt { count }
query typing { user { id name } }
query Fav { favourite }
query Shades { shades }
query Loc($query: String, $variables: Int, $response: ID, $data: Int) { echo(query: $query, variables: $variables, response: $response, data: $data) }
mutation Mu($n: String!, $f: Filter) { rename(name: $n, f: $f) { id } }
mutation Up($f: Upload!, $a: Att) { up(f: $f, a: $a) }
subscription Su { tick }
query RootFr { ...OuterQ }
query RootOne { ...InnerQ }
query RootMix { ...InnerQ users { id } }
fragment UF on User { id name }
fragment InnerQ on Query { count }
fragment OuterQ on Query { ...InnerQ me { name } }
"""
PAYLOADS = {
    "One": {"user": {"id": "1", "name": "n", "color": "RED"}},
    "Many": {"user": {"id": "1"}, "me": None},
    "Un": {"thing": {"__typename": "Bot", "model": "m"}},
    "Fr": {"user": {"id": "1", "name": None}},
    "Li": {"users": [{"id": "1"}, {"id": "2"}]},
    "Sc": {"when": "2020-01-01"},
    "Cnt": {"count": 3},
    "typing": {"user": {"id": "9", "name": None}},
    "Fav": {"favourite": "GREEN"},
    "Shades": {"shades": ["RED", "GREEN"]},
    "Loc": {"echo": 1},
    "Mu": {"rename": None},
    "Up": {"up": True},
    "Su": {"tick": 5},
    "RootFr": {"count": 4, "me": {"name": "z"}},
    "RootOne": {"count": 9},
    "RootMix": {"count": 1, "users": []},
}
SINGLE_TOP = {"One": "user", "Un": "thing", "Fr": "user", "Li": "users", "Sc": "when", "Cnt": "count", "typing": "user", "Fav": "favourite", "Shades": "shades", "Loc": "echo", "Mu": "rename", "Up": "up", "Su": "tick", "RootOne": "count"}

ORDERS = [()]
# quick tier: every ordered selection of <= 3 plugins + all five in two orders; thorough tier: every ordered selection (326)
_MAXK = 5 if os.environ.get("VERIF_C15_THOROUGH", "0") == "1" else 3
for _k in range(1, _MAXK + 1):
    for _c in itertools.permutations("SEFNI", _k):
        ORDERS.append(_c)
if _MAXK < 5:
    ORDERS.append(tuple("SEFNI"))
    ORDERS.append(tuple("INFES"))


# package variants: 0 = all operations; 1 = only operations whose result holds scalars (no model class appears in any client
# signature once ShorterResults is applied); 2 = all operations with enable_custom_operations (the client gains methods that
# are not generated from operations)
SCALAR_ONLY = ("Cnt", "Loc", "Sc", "Fav", "Shades")
NVAR = 3


def generate(plugins, is_async, variant=0):
    ops = OPS if is_async else OPS.replace("subscription Su { tick }\n", "")
    if variant == 1:
        ops = "\n".join(ln for ln in ops.splitlines() if any(ln.startswith(f"query {n}") for n in SCALAR_ONLY))
    job = {"schema": SDL, "queries": ops, "files": {"vplug.py": VPLUG},
           "config": {"plugins": list(plugins), "async_client": is_async, "target_package_name": "gcl",
                      "scalars": {"Date": {"type": "str"}}}}
    if variant == 2:
        job["config"]["enable_custom_operations"] = True
    return gen.run_subprocess_generation(job)


def observe(files, is_async):
    """import the package in a child and drive every generated method with a stub transport; -> per operation dict"""
    code = r'''
import importlib, inspect, json, enum
def norm(v):
    from pydantic import BaseModel
    if isinstance(v, BaseModel):
        return {"__model__": type(v).__name__, "fields": {k: norm(x) for k, x in v.model_dump(by_alias=True).items()}}
    if isinstance(v, enum.Enum):
        return v.value
    if isinstance(v, list):
        return [norm(x) for x in v]
    return v
def main(pkg, arg):
    out = {"ops": {}, "init_names": None}
    top = importlib.import_module(pkg)
    import types
    # names the package offers; sub-modules appear in vars(package) only as a side effect of which module imported which
    out["init_names"] = sorted(n for n, v in vars(top).items() if not n.startswith("_") and not isinstance(v, types.ModuleType))
    mod = importlib.import_module(pkg + ".client")
    cls = mod.Client
    for name, fn in vars(cls).items():
        if not inspect.isfunction(fn) or name.startswith("_") or name in ("execute_custom_operation", "query", "mutation"):
            continue
        c = cls.__new__(cls)
        cap = {}
        sig = inspect.signature(fn)
        kwargs = {}
        for pname, p in list(sig.parameters.items())[1:]:
            if p.default is inspect.Parameter.empty and p.kind == p.POSITIONAL_OR_KEYWORD:
                kwargs[pname] = "val"
        import re
        rec = {"signature": re.sub(r" at 0x[0-9a-f]+", "", str(sig).replace('"', "").replace("'", ""))}
        def make(cap):
            def execute(**kw):
                cap.update({k: v for k, v in kw.items()})
                return "RESP"
            async def aexecute(**kw):
                cap.update({k: v for k, v in kw.items()})
                return "RESP"
            async def execute_ws(**kw):
                cap.update({k: v for k, v in kw.items()})
                yield arg["payloads"][kw.get("operation_name")]
            return execute, aexecute, execute_ws
        ex, aex, ws = make(cap)
        c.execute = aex if arg["is_async"] else ex
        c.execute_ws = ws
        c.get_data = lambda resp: arg["payloads"][cap.get("operation_name")]
        try:
            r = fn(c, **kwargs)
            if inspect.iscoroutine(r):
                try:
                    r.send(None); result = ("suspended",)
                except StopIteration as s:
                    result = ("ok", norm(s.value))
            elif inspect.isasyncgen(r):
                co = r.__anext__()
                try:
                    co.send(None); result = ("suspended",)
                except StopIteration as s:
                    result = ("ok", norm(s.value))
            else:
                result = ("ok", norm(r))
        except Exception as e:
            result = ("exc", type(e).__name__ + ": " + str(e)[:150])
        def jn(v):
            if isinstance(v, dict):
                return {k: jn(x) for k, x in v.items()}
            if type(v).__name__ == "UnsetType":
                return "<UNSET>"
            return v if isinstance(v, (str, int, float, bool, type(None))) else repr(v)
        rec["request"] = {k: jn(v) for k, v in cap.items()}
        if isinstance(rec["request"].get("query"), str):
            from graphql import parse, print_ast
            try:
                rec["request"]["query"] = print_ast(parse(rec["request"]["query"]))
            except Exception as e:
                rec["request"]["query"] = "UNPARSEABLE: " + rec["request"]["query"]
        rec["result"] = result
        out["ops"][cap.get("operation_name") or name] = rec
    return out
'''
    r = gen.pkg_eval({"files": files, "code": code, "arg": {"payloads": PAYLOADS, "is_async": is_async}, "extra": {"vplug.py": VPLUG}})
    return r


_REF = {}


def reference(is_async, variant=0):
    if (is_async, variant) not in _REF:
        r = generate([], is_async, variant)
        assert r["ok"], r
        o = observe(r["files"], is_async)
        assert o["ok"], o
        _REF[(is_async, variant)] = (r["files"], o["result"])
    return _REF[(is_async, variant)]


def strip_result(v):
    return v


def run_case(order, is_async, variant=0):
    ref_files, ref_obs = reference(is_async, variant)
    r = generate([PLUGINS[k] for k in order], is_async, variant)
    if not r.get("ok"):
        return [f"generation failed: {r.get('exc_type')}: {(r.get('exc_msg') or r.get('harness_exc') or '')[:200]}"]
    files = r["files"]
    o = observe(files, is_async)
    if not o["ok"]:
        return [f"package with plugins {order} does not load: {o.get('exc_type')}: {o.get('exc_msg')}"]
    obs = o["result"]
    probs = []
    has = set(order)
    # result models, enums, inputs, fragments: byte-identical
    for fn, text in ref_files.items():
        if fn in ("client.py", "__init__.py"):
            continue
        if files.get(fn) != text:
            probs.append(f"{fn} differs from the unplugged package")
    extra = set(files) - set(ref_files)
    if extra - ({"operations.py"} if "E" in has else set()):
        probs.append(f"unexpected extra files {sorted(extra)}")
    if "N" in has:
        if files["__init__.py"].strip() not in ("", "__all__ = []") and "import" in files["__init__.py"]:
            probs.append("NoReimports did not empty __init__")
    elif files["__init__.py"] != ref_files["__init__.py"]:
        extra_names = set(obs["init_names"]) - set(ref_obs["init_names"])
        missing = set(ref_obs["init_names"]) - set(obs["init_names"])
        allowed = {n for n in extra_names if n == "operations" or n.endswith("_GQL")} if "E" in has else set()
        if missing or extra_names - allowed:
            probs.append(f"__init__ exports differ although NoReimports is not configured: missing {sorted(missing)} extra {sorted(extra_names - allowed)}")
    if not (has & {"S", "E", "F"}) and files["client.py"] != ref_files["client.py"]:
        probs.append("client.py differs although no client-changing plugin is configured")
    if not has - {"I"} and files != ref_files:
        probs.append("identity plugin changed bytes")
    for op, rref in ref_obs["ops"].items():
        if op == "Su" and not is_async:
            continue
        got = obs["ops"].get(op)
        if got is None:
            probs.append(f"{op}: no method observed")
            continue
        if got["request"] != rref["request"]:
            probs.append(f"{op}: request differs {got['request']} vs {rref['request']}")
        if "F" not in has and "S" not in has and got["signature"] != rref["signature"]:
            probs.append(f"{op}: signature differs")
        if "S" in has and op in SINGLE_TOP and rref["result"][0] == "ok":
            want = ("ok", rref["result"][1]["fields"][SINGLE_TOP[op]]) if isinstance(rref["result"][1], dict) else rref["result"]
            g = got["result"]
            if g[0] == "ok" and isinstance(g[1], dict) and "__model__" in g[1] and isinstance(want[1], dict):
                g = ("ok", g[1]["fields"])  # compare field values of the nested model with the dumped field of the parent
            elif g[0] == "ok" and isinstance(g[1], list) and isinstance(want[1], list):
                g = ("ok", [x["fields"] if isinstance(x, dict) and "__model__" in x else x for x in g[1]])
            if g != want:
                probs.append(f"{op}: ShorterResults returns {got['result']} but the unplugged result's field is {want}")
        elif got["result"] != rref["result"]:
            probs.append(f"{op}: result differs {got['result']} vs {rref['result']}")
    return probs


def _check(idx_lo: int, n: int, i: int, is_async: bool, variant: int = 0) -> bool:
    k = idx_lo + pick(i, n)
    a = True if is_async else False
    v = pick(variant, NVAR)
    with NoTracing():
        with opened_auditwall():
            probs = run_case(ORDERS[k], a, v)
        order = ORDERS[k]
        f_before_s = "F" in order and "S" in order and order.index("F") < order.index("S")
        only_shorter = bool(probs) and all("ShorterResults returns" in p or "signature differs" in p for p in probs)
    if probs and f_before_s and only_shorter:
        return known("C15-shorter-results-after-forward-refs")
    return not probs


def hook_order_case(first_a: bool):
    plugs = ["vplug.MarkA", "vplug.MarkB"] if first_a else ["vplug.MarkB", "vplug.MarkA"]
    r = gen.run_subprocess_generation({"schema": SDL, "queries": OPS, "files": {"vplug.py": VPLUG}, "config": {"plugins": plugs, "scalars": {"Date": {"type": "str"}}}})
    if not r.get("ok"):
        return False
    tail = [ln for ln in r["files"]["client.py"].splitlines() if ln.startswith("# mark")]
    return tail == (["# mark A", "# mark B"] if first_a else ["# mark B", "# mark A"])


def check_hook_order(first_a: bool) -> bool:
    """
    post: _
    """
    fa = True if first_a else False
    with NoTracing():
        with opened_auditwall():
            return hook_order_case(fa)


def parts_source(nparts: int = 16) -> str:
    out = ["from harness.C15_plugins import _check", ""]
    n = len(ORDERS)
    for p in range(nparts):
        lo, hi = p * n // nparts, (p + 1) * n // nparts
        out.append(f"def check_plugins_p{p}(i: int, is_async: bool, variant: int) -> bool:\n    \"\"\"\n    post: _\n    \"\"\"\n    return _check({lo}, {hi - lo}, i, is_async, variant)\n")
    return "\n".join(out)


def twin_all_plugins_ok(is_async: bool) -> bool:
    """
    post: _
    """
    a = True if is_async else False
    with NoTracing():
        with opened_auditwall():
            probs = run_case(tuple("SEFNI"), a)
    return bool(probs)
