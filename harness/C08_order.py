"""C08 harness (ordering clause): fragment classes are defined before their dependants whatever the definition order and
wherever the dependency sits (top-level spread = base class, or spread inside a nested field = base of a nested class).
Symbolic: one of {no edge, top-level spread, nested spread} for each of the 6 pairs of 4 fragments + definition order."""
import ast

from graphql import build_ast_schema, parse

from ariadne_codegen.client_generators.fragments import FragmentsGenerator
from harness._h import NoTracing, known, pick

SDL = "type Query { me: User! } type User { id: ID! name: String age: Int email: String bestFriend: User friends: [User!] }"
SCHEMA = build_ast_schema(parse(SDL), assume_valid=True)
# index order (edges go from lower to higher index) differs from alphabetical order, so every lexicographic relation occurs
NAMES = ["Mm", "Aa", "Zz", "Dd"]
FIELDS = ["id", "name", "age", "email"]


def make(kinds, reverse):
    """kinds[(i, j)] in {0, 1, 2} for i < j"""
    frs = []
    for i, n in enumerate(NAMES):
        parts = [FIELDS[i]]
        nested = []
        for j in range(i + 1, len(NAMES)):
            k = kinds[(i, j)]
            if k == 1:
                parts.append("..." + NAMES[j])
            elif k == 2:
                nested.append("..." + NAMES[j])
        if nested:
            parts.append("bestFriend { " + " ".join(nested) + " }")
        frs.append(f"fragment {n} on User {{ {' '.join(parts)} }}")
    if reverse:
        frs = frs[::-1]
    doc = parse("\n".join(frs))
    return {d.name.value: d for d in doc.definitions}


def module_loads(src: str):
    src = src.replace("from .base_model import", "from ariadne_codegen.client_generators.dependencies.base_model import")
    try:
        exec(compile(src, "<fragments>", "exec"), {"__name__": "fragments_under_test"})
        return True, ""
    except Exception as e:
        return False, f"{type(e).__name__}: {str(e)[:120]}"


def order_problems(src: str):
    tree = ast.parse(src)
    defined = []
    probs = []
    all_classes = {n.name for n in tree.body if isinstance(n, ast.ClassDef)}
    for n in tree.body:
        if isinstance(n, ast.ClassDef):
            for b in n.bases:
                if isinstance(b, ast.Name) and b.id in all_classes and b.id not in defined:
                    probs.append(f"class {n.name} is defined before its base {b.id}")
            defined.append(n.name)
    for want in NAMES:
        if want not in all_classes:
            probs.append(f"fragment class {want} missing")
    return probs


def _check(k01, k02, k03, k12, k13, k23, reverse) -> bool:
    kinds = {(0, 1): pick(k01, 3), (0, 2): pick(k02, 3), (0, 3): pick(k03, 3), (1, 2): pick(k12, 3), (1, 3): pick(k13, 3), (2, 3): pick(k23, 3)}
    rv = True if reverse else False
    with NoTracing():
        defs = make(kinds, rv)
        g = FragmentsGenerator(schema=SCHEMA, fragments_definitions=defs)
        src = ast.unparse(g.generate())
        probs = order_problems(src)
        ok, err = module_loads(src)
        mro = (not ok) and "consistent method resolution" in err and not probs
    if mro:
        # a fragment spreads both X and a fragment that already derives from X: bases (X, Y) cannot be linearised
        return known("C08-mro-conflict-order-kernel")
    return not probs and ok


def parts_source() -> str:
    out = ["from harness.C08_order import _check", ""]
    for a in range(3):
        for b in range(3):
            out.append(f"def check_order_{a}{b}(k03: int, k12: int, k13: int, k23: int, reverse: bool) -> bool:\n    \"\"\"\n    post: _\n    \"\"\"\n    return _check({a}, {b}, k03, k12, k13, k23, reverse)\n")
    return "\n".join(out)


def twin_nested_and_top(k03: int, k13: int, k23: int, reverse: bool) -> bool:
    """
    post: _
    """
    ok = _check(2, 1, k03, 0, k13, k23, reverse)
    return not (ok and pick(k23, 3) == 2)
