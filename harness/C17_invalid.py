"""C17 harness: invalid input is rejected up front with an ariadne-codegen exception and without touching the target."""
import os

from harness._h import NoTracing, known, opened_auditwall, pick
from vlib import gen

SDL = "type Query { user(id: ID!, n: Int): User users: [User!]! }\ntype User { id: ID! name: String friends: [User!] }\ninput Filter { a: Int }\nenum Color { RED }\nscalar Date\ntype Subscription { tick: Int! other: Int }"
OPS = "query GetUser($id: ID!) { user(id: $id) { id name } }"
X = "ariadne_codegen.exceptions."

# (name, config overrides / special, expected exception class name)
VIOLATIONS = [
    ("no_schema_source", {"schema_path": None}, "InvalidConfiguration"),
    ("schema_path_missing", {"schema_path": "/nonexistent/schema.graphql"}, "InvalidConfiguration"),
    ("schema_path_missing_with_remote_url", {"schema_path": "/nonexistent/schema.graphql", "remote_schema_url": "http://x/graphql"}, "InvalidConfiguration"),
    ("queries_path_not_given", {"queries_path": None}, "MissingConfiguration"),
    ("queries_path_missing", {"queries_path": "/nonexistent/q.graphql"}, "InvalidConfiguration"),
    ("package_name_dash", {"target_package_name": "my-pkg"}, "InvalidConfiguration"),
    ("package_name_digit", {"target_package_name": "1pkg"}, "InvalidConfiguration"),
    ("package_name_keyword", {"target_package_name": "class"}, "InvalidConfiguration"),
    ("package_path_not_dir", {"target_package_path": "/nonexistent/dir"}, "InvalidConfiguration"),
    ("client_name_invalid", {"client_name": "My Client"}, "InvalidConfiguration"),
    ("client_name_keyword", {"client_name": "None"}, "InvalidConfiguration"),
    ("client_file_name_invalid", {"client_file_name": "cli.ent"}, "InvalidConfiguration"),
    ("base_client_name_invalid", {"base_client_name": "Base-Client", "base_client_file_path": "__BASE__/base.py"}, "InvalidConfiguration"),
    ("base_client_file_missing", {"base_client_name": "MyBase", "base_client_file_path": "/nonexistent/base.py"}, "InvalidConfiguration"),
    ("base_client_class_missing", {"base_client_name": "Other", "base_client_file_path": "__BASE__/base.py"}, "InvalidConfiguration"),
    ("base_client_class_prefix_only", {"base_client_name": "MyBa", "base_client_file_path": "__BASE__/base.py"}, "InvalidConfiguration"),
    ("base_client_class_suffix_only", {"base_client_name": "Base", "base_client_file_path": "__BASE__/base.py"}, "InvalidConfiguration"),
    ("enums_module_invalid", {"enums_module_name": "my enums"}, "InvalidConfiguration"),
    ("inputs_module_invalid", {"input_types_module_name": "in-puts"}, "InvalidConfiguration"),
    ("fragments_module_invalid", {"fragments_module_name": "frag.ments"}, "InvalidConfiguration"),
    ("fragments_module_keyword", {"fragments_module_name": "import"}, "InvalidConfiguration"),
    ("comments_unknown_mode", {"include_comments": "sometimes"}, "InvalidConfiguration"),
    ("scalar_without_type", {"scalars": {"Date": {"parse": "x.y"}}}, "MissingConfiguration"),
    ("header_env_unresolvable", {"schema_path": None, "remote_schema_url": "http://x/graphql", "remote_schema_headers": {"A": "$VERIF_C17_UNSET_VARIABLE"}}, "InvalidConfiguration"),
    ("files_to_include_missing", {"files_to_include": ["/nonexistent/extra.py"]}, "InvalidConfiguration"),
    ("no_tool_section", "NO_SECTION", "MissingConfiguration"),
    ("schema_syntax_error", "SCHEMA:type Query { a: Int", "InvalidGraphqlSyntax"),
    ("queries_syntax_error", "QUERIES:query Q { a ", "InvalidGraphqlSyntax"),
    ("plugin_unknown", {"plugins": ["not_a_module.NoPlugin"]}, "PluginImportError"),
    # colliding file names (a documented refusal): a configured module / an operation named like a file the package always contains
    ("enums_module_named_exceptions", {"enums_module_name": "exceptions"}, "ParsingError"),
    ("inputs_module_named_base_model", {"input_types_module_name": "base_model"}, "ParsingError"),
    ("client_file_named_enums", {"client_file_name": "enums"}, "ParsingError"),
    ("fragments_module_named_client", {"fragments_module_name": "client"}, "ParsingError"),
    ("operation_named_exceptions", "QUERIES:query exceptions { user(id: \"1\") { id } }", "ParsingError"),
    ("operation_named_async_base_client", "QUERIES:query asyncBaseClient { user(id: \"1\") { id } }", "ParsingError"),
    # directory sources: every FILE must be valid GraphQL on its own (two halves that only parse when glued together are two invalid files)
    ("queries_dir_files_invalid_alone", ("QTREE", [("a.graphql", "query GetA { users { id }"), ("b.graphql", "} query GetB { users { id } }")]), "InvalidGraphqlSyntax"),
    ("schema_dir_files_invalid_alone", ("STREE", [("a.graphql", "type Query { users: [User!]! user(id: ID!): User"), ("b.graphql", "} type User { id: ID! name: String }")]), "InvalidGraphqlSyntax"),
    # custom operations copy base_operation.py into the package: an operation module of that name collides
    ("operation_named_base_operation_custom_ops", ("QCFG", "query BaseOperation { users { id } }", {"enable_custom_operations": True}), "ParsingError"),
]

INVALID_OPS = [
    ("unknown_field", "query Q { user(id: \"1\") { nope } }"),
    ("unknown_type", "query Q { user(id: \"1\") { ... on Nope { id } } }"),
    ("unknown_argument", "query Q { user(id: \"1\", zzz: 1) { id } }"),
    ("duplicate_operation_names", "query Q { users { id } }\nquery Q { users { name } }"),
    ("leaf_with_selection", "query Q { users { id { x } } }"),
    ("composite_without_selection", "query Q { users }"),
    ("variable_not_input_type", "query Q($u: User) { users { id } }"),
    ("undefined_variable", "query Q { user(id: $id) { id } }"),
    ("unused_variable", "query Q($x: Int) { users { id } }"),
    ("unknown_directive", "query Q { users @nope { id } }"),
    ("missing_required_argument", "query Q { user { id } }"),
    ("wrong_value_type", "query Q { user(id: \"1\", n: \"str\") { id } }"),
    ("conflicting_fields", "query Q { users { x: id x: name } }"),
    ("impossible_fragment_spread", "query Q { users { ... on Query { users { id } } } }"),
    ("fragment_cycle", "query Q { users { ...A } }\nfragment A on User { ...B }\nfragment B on User { ...A }"),
    ("duplicate_variable", "query Q($a: Int, $a: Int) { user(id: \"1\", n: $a) { id } }"),
    ("fragment_on_scalar", "query Q { users { ...F } }\nfragment F on Date { x }"),
    ("unknown_fragment", "query Q { users { ...Nope } }"),
    ("duplicate_fragment_names", "query Q { users { ...F } }\nfragment F on User { id }\nfragment F on User { name }"),
    ("duplicate_argument", "query Q { user(id: \"1\", id: \"2\") { id } }"),
    ("duplicate_directive", "query Q { users @skip(if: true) @skip(if: false) { id } }"),
    ("variable_in_wrong_position", "query Q($n: String) { user(id: \"1\", n: $n) { id } }"),
    ("anonymous_with_others", "{ users { id } }\nquery Q { users { id } }"),
    ("subscription_two_fields", "subscription S { tick other }"),
    ("duplicate_input_field", "query Q($f: Filter = {a: 1, a: 2}) { users { id } }"),
    ("type_definition_in_operations", "query Q { users { id } }\ntype Extra { a: Int }"),
    ("misplaced_directive", "query Q @skip(if: true) { users { id } }"),
    ("default_value_wrong_type", "query Q($n: Int = \"x\") { user(id: \"1\", n: $n) { id } }"),
]

INVALID_SCHEMAS = [
    ("no_query_root", "type User { id: ID }"),
    ("object_without_fields", "type Query { a: Empty }\ntype Empty"),
    ("interface_not_implemented", "type Query { a: A }\ninterface I { id: ID! }\ntype A implements I { name: String }"),
    ("union_of_scalar", "type Query { u: U }\nunion U = String"),
    ("enum_without_values", "type Query { e: E }\nenum E"),
    ("input_without_fields", "type Query { a(i: I): Int }\ninput I"),
    ("unknown_type_reference", "type Query { a: Missing }"),
    ("duplicate_type", "type Query { a: Int }\ntype Query { b: Int }"),
    ("reserved_name", "type Query { __a: Int }"),
    ("output_type_as_argument", "type Query { a(u: User): Int }\ntype User { id: ID }"),
    ("unknown_directive_usage", "type Query { a: Int @nope }"),
    ("required_input_cycle", "type Query { a(i: I): Int }\ninput I { self: I! }"),
]

BASE_PY = "class MyBase:\n    pass\n"
PREV = {"__init__.py": "# previous generation\n", "client.py": "OLD = 1\n"}


def run_violation(spec, pre: int, strategy="client"):
    """-> dict(exc, mro, target_before, target_after, config_mutated)"""
    name, change, want = spec
    job = {"schema": SDL, "queries": OPS, "config": {}, "files": {"base.py": BASE_PY}}
    if isinstance(change, dict):
        for k, v in change.items():
            if v is None:
                if k == "schema_path":
                    job["schema"] = None
                elif k == "queries_path":
                    job["queries"] = None
            else:
                job["config"][k] = v
    elif change == "NO_SECTION":
        job["no_section"] = True
    elif isinstance(change, str) and change.startswith("SCHEMA:"):
        job["schema"] = change[7:]
    elif isinstance(change, str) and change.startswith("QUERIES:"):
        job["queries"] = change[8:]
    elif isinstance(change, tuple) and change[0] == "QTREE":
        job["queries"] = [tuple(x) for x in change[1]]
    elif isinstance(change, tuple) and change[0] == "STREE":
        job["schema"] = [tuple(x) for x in change[1]]
    elif isinstance(change, tuple) and change[0] == "QCFG":
        job["queries"] = change[1]
        job["config"].update(change[2])
    if pre == 1:
        job["preexisting"] = {}
        job["pre_empty_dir"] = True
    elif pre == 2:
        job["preexisting"] = dict(PREV)
    r = generate_guarded(job)
    return r


def generate_guarded(job):
    """gen.generate with the few special cases this harness needs (no section / placeholders / empty pre-existing dir)"""
    import json
    import shutil
    import tempfile

    job = dict(job)
    cfg = dict(job.get("config") or {})
    # placeholders for files created in the scratch dir are resolved by gen.generate for files_to_include/base client only
    if str(cfg.get("base_client_file_path", "")).startswith("__BASE__/"):
        cfg["base_client_file_path"] = cfg["base_client_file_path"].replace("__BASE__/", "")
    job["config"] = cfg
    if job.get("no_section"):
        from ariadne_codegen import main as _main

        try:
            _main.client({"tool": {"other": {}}})
            return {"ok": True}
        except BaseException as e:  # noqa: BLE001
            return {"ok": False, "exc_type": type(e).__module__ + "." + type(e).__name__, "exc_mro": [c.__module__ + "." + c.__name__ for c in type(e).__mro__],
                    "files": {}, "target_exists": False, "config_before": "x", "config_after": "x", "pre": {}}
    if job.get("pre_empty_dir"):
        job["preexisting"] = {".keep": ""}
    r = gen.generate(job)
    r["pre"] = job.get("preexisting") or {}
    return r


def judge(r, want_exc, pre_files) -> list:
    probs = []
    if r.get("harness_exc"):
        return ["harness: " + r["harness_exc"][-200:]]
    if r.get("ok"):
        probs.append("accepted: generation succeeded")
    else:
        mro = r.get("exc_mro") or []
        if X + "CodeGenException" not in mro:
            probs.append(f"failed with {r.get('exc_type')} which is not an ariadne-codegen exception")
        elif want_exc and X + want_exc not in mro:
            probs.append(f"failed with {r.get('exc_type')}, expected {want_exc}")
    after = r.get("files") or {}
    if pre_files:
        if after != pre_files:
            probs.append(f"target modified: before {sorted(pre_files)} after {sorted(after)}")
    elif r.get("target_exists") or after:
        probs.append(f"target created: {sorted(after)}")
    if r.get("config_before") != r.get("config_after"):
        probs.append("the configuration dict was mutated")
    return probs


# otherwise-valid option sets in force next to the violated constraint: a violation must be refused whatever else is configured
CONTEXTS = [
    {},
    {"enable_custom_operations": True},
    {"async_client": False, "convert_to_snake_case": False},
    {"opentelemetry_client": True, "include_all_inputs": False, "include_all_enums": False},
    {"plugins": ["ariadne_codegen.contrib.shorter_results.ShorterResultsPlugin"], "include_comments": "stable"},
    {"enable_custom_operations": True, "async_client": False, "files_to_include": ["base.py"]},
]


def _config_violation(v, pre, c: int) -> bool:
    k = pick(v, len(VIOLATIONS))
    p = pick(pre, 3)
    name, change, want = VIOLATIONS[k]
    if isinstance(change, dict) and "target_package_path" in change:
        p = 0  # the target location itself is the invalid part: nothing can pre-exist there
    ctx = CONTEXTS[c]
    if name == "queries_path_not_given" and ctx.get("enable_custom_operations"):
        return True  # documented: queries_path is optional with custom operations, so this is no violation
    with NoTracing():
        with opened_auditwall():
            spec = VIOLATIONS[k]
            if ctx and isinstance(change, dict):
                merged = dict(ctx)
                merged.update(change)
                spec = (name, merged, want)
            elif ctx:
                return True  # file-content violations are explored in the plain context only
            r = run_violation(spec, p)
            probs = judge(r, want, r.get("pre"))
    return not probs


def check_config_violations(v: int, pre: int) -> bool:
    """
    post: _
    """
    return _config_violation(v, pre, 0)


def check_config_violations_custom_ops(v: int, pre: int) -> bool:
    """
    post: _
    """
    return _config_violation(v, pre, 1)


def check_config_violations_sync_plain(v: int, pre: int) -> bool:
    """
    post: _
    """
    return _config_violation(v, pre, 2)


def check_config_violations_otel_pruned(v: int, pre: int) -> bool:
    """
    post: _
    """
    return _config_violation(v, pre, 3)


def check_config_violations_plugin(v: int, pre: int) -> bool:
    """
    post: _
    """
    return _config_violation(v, pre, 4)


def check_config_violations_custom_ops_sync(v: int, pre: int) -> bool:
    """
    post: _
    """
    return _config_violation(v, pre, 5)


def check_invalid_operations(i: int, pre: int) -> bool:
    """
    post: _
    """
    k = pick(i, len(INVALID_OPS))
    p = pick(pre, 3)
    with NoTracing():
        with opened_auditwall():
            job = {"schema": SDL, "queries": INVALID_OPS[k][1]}
            if p == 2:
                job["preexisting"] = dict(PREV)
            elif p == 1:
                job["preexisting"] = {".keep": ""}
            r = gen.generate(job)
            probs = judge(r, None, job.get("preexisting"))
        name = INVALID_OPS[k][0]
    if probs and name == "anonymous_with_others" and all("ParsingError" in p or "target" in p for p in probs):
        return False
    return not probs


def check_invalid_schemas(i: int, pre: int) -> bool:
    """
    post: _
    """
    k = pick(i, len(INVALID_SCHEMAS))
    p = pick(pre, 3)
    with NoTracing():
        with opened_auditwall():
            job = {"schema": INVALID_SCHEMAS[k][1], "queries": "query Q { __typename }"}
            if p == 2:
                job["preexisting"] = dict(PREV)
            r = gen.generate(job)
            probs = judge(r, None, job.get("preexisting"))
        only_class = bool(probs) and all(("accepted" in x) or ("not an ariadne-codegen exception" in x) or ("target created" in x) or ("target modified" in x) for x in probs)
    if probs and only_class:
        # build_ast_schema(assume_valid=True) + assert_valid_schema: invalid schemas are accepted or die with a graphql-core TypeError
        return known("C17-invalid-schema-not-rejected")
    return not probs


VALID_CONFIGS = [
    {},
    {"unknown_key": 1, "another": {"x": 2}},
    {"client_name": "MyClient", "client_file_name": "my_client", "enums_module_name": "my_enums", "input_types_module_name": "my_inputs", "fragments_module_name": "my_frags"},
    {"include_comments": "none"}, {"include_comments": "timestamp"}, {"include_comments": "stable"},
    {"async_client": False}, {"opentelemetry_client": True}, {"async_client": False, "opentelemetry_client": True},
    {"convert_to_snake_case": False, "include_all_inputs": False, "include_all_enums": False},
    {"scalars": {"Date": {"type": "str"}}},
    {"include_comments": True}, {"include_comments": False, "scalars": {"Date": {"type": "str", "parse": "json.loads"}}},
    {"base_client_name": "MyBase", "base_client_file_path": "base.py"},
    {"target_package_name": "_private_pkg9"},
    {"__remote__": True, "remote_schema_url": "http://x/graphql", "remote_schema_headers": {"Authorization": "$VERIF_C17_TOKEN", "X-Plain": "v"}, "remote_schema_verify_ssl": False},
    {"__remote__": True, "remote_schema_url": "http://x/graphql", "remote_schema_headers": {}},
]


def _valid_config(i, pre, legacy: bool) -> bool:
    k = pick(i, len(VALID_CONFIGS))
    p = pick(pre, 2)
    with NoTracing():
        with opened_auditwall():
            import copy

            cfg = copy.deepcopy(VALID_CONFIGS[k])
            job = {"schema": SDL, "queries": OPS, "config": cfg, "files": {"base.py": BASE_PY}, "legacy_section": legacy}
            if cfg.pop("__remote__", False):
                job["schema"] = None
                job["introspection"] = {"sdl": SDL}
                os.environ["VERIF_C17_TOKEN"] = "secret-token"
            if p == 1:
                job["preexisting"] = dict(PREV)
            try:
                r = gen.generate(job)
            finally:
                os.environ.pop("VERIF_C17_TOKEN", None)
            ok = bool(r.get("ok")) and r.get("config_before") == r.get("config_after")
            if ok and job.get("introspection") is not None and cfg.get("remote_schema_headers"):
                calls = r.get("http_calls") or []
                ok = len(calls) == 1 and calls[0]["headers"] == {"Authorization": "secret-token", "X-Plain": "v"} and calls[0]["verify"] is False
    return ok


def check_valid_configs(i: int, pre: int) -> bool:
    """
    post: _
    """
    return _valid_config(i, pre, False)


def check_valid_configs_legacy_section(i: int, pre: int) -> bool:
    """
    post: _
    """
    return _valid_config(i, pre, True)


SCHEMA_TARGETS = [("schema.py", True), ("s.graphql", True), ("s.GQL", True), ("out.txt", False), ("noext", False), ("a.b.py", True), ("x.json", False)]


def check_schema_strategy_target(i: int, pre: bool) -> bool:
    """
    post: _
    """
    k = pick(i, len(SCHEMA_TARGETS))
    with NoTracing():
        with opened_auditwall():
            name, valid = SCHEMA_TARGETS[k]
            job = {"schema": SDL, "strategy": "graphqlschema", "config": {"target_file_path": name}}
            r = gen.generate(job)
            if valid:
                return bool(r.get("ok"))
            return (not r.get("ok")) and X + "InvalidConfiguration" in (r.get("exc_mro") or []) and not r.get("target_exists")


BAD_VARNAMES = ["1schema", "class", "x y", "a-b", "", "x = 1; y"]


def check_schema_strategy_names(i: int, which: bool, t: int, pre: bool) -> bool:
    """
    post: _
    """
    k, tk = pick(i, len(BAD_VARNAMES)), pick(t, 4)
    wh, pr = (True if which else False), (True if pre else False)
    with NoTracing():
        with opened_auditwall():
            # a variable name that is not an identifier is a violated constraint whatever the (valid) target file is called
            target = ["schema.py", "schema.PY", "out.graphql", "out.GQL"][tk]
            cfg = {"target_file_path": target, ("schema_variable_name" if wh else "type_map_variable_name"): BAD_VARNAMES[k]}
            job = {"schema": SDL, "strategy": "graphqlschema", "config": cfg}
            if pr:
                job["preexisting"] = {"x": "# previous schema file\n"}
            r = gen.generate(job)
            if r.get("ok") or X + "InvalidConfiguration" not in (r.get("exc_mro") or []):
                return False
            if pr:
                return list((r.get("files") or {}).values()) == ["# previous schema file\n"]
            return not r.get("target_exists")


def twin_invalid_operation_rejected(i: int, pre: int) -> bool:
    """
    post: _
    """
    k = pick(i, len(INVALID_OPS))
    with NoTracing():
        with opened_auditwall():
            r = gen.generate({"schema": SDL, "queries": INVALID_OPS[k][1], "preexisting": dict(PREV)})
    return not (not r.get("ok") and r.get("files") == PREV)
