"""C12 harness: every HTTP response is classified into exactly one documented outcome (real get_data of the 4 clients)."""
import httpx

from ariadne_codegen.client_generators.dependencies import exceptions as X
from ariadne_codegen.client_generators.dependencies.async_base_client import AsyncBaseClient
from ariadne_codegen.client_generators.dependencies.async_base_client_open_telemetry import AsyncBaseClientOpenTelemetry
from ariadne_codegen.client_generators.dependencies.base_client import BaseClient
from ariadne_codegen.client_generators.dependencies.base_client_open_telemetry import BaseClientOpenTelemetry
from harness._h import path_done, pick

CLIENTS = [BaseClient, AsyncBaseClient, BaseClientOpenTelemetry, AsyncBaseClientOpenTelemetry]


class LazyBody:
    """the body is built from the symbolic parameters only when the code under test (or the spec) asks for it"""

    def __init__(self, *params):
        self.params = params
        self.built = False
        self.value = None

    def get(self):
        if not self.built:
            kind, has_data, data_kind, has_errors, n_err, e0, e1, extra = self.params
            k = pick(kind, 5)
            if k < 4:
                self.value = build_body(k, False, 0, False, 0, 0, 0, False)
            else:
                hd = True if has_data else False
                he = True if has_errors else False
                ne = pick(n_err, 4) if he else 0
                self.value = build_body(k, hd, pick(data_kind, 3) if hd else 0, he, ne, pick(e0, 4) if ne >= 2 else 0,
                                        pick(e1, 4) if ne >= 3 else 0, True if extra else False)
            self.built = True
        return self.value


class StubResponse:
    def __init__(self, status_code, json_ok, body):
        self.status_code = status_code
        self._json_ok = json_ok
        self._lazy = body

    @property
    def _body(self):
        return self._lazy.get()

    @property
    def is_success(self):
        return httpx.codes.is_success(self.status_code)

    def json(self):
        if not self._json_ok:
            raise ValueError("bad json")
        return self._body


LOC = [{"line": 1, "column": 2}]


def build_error(shape: int):
    e = {"message": "boom"}
    if shape == 1:
        e["locations"] = LOC
    elif shape == 2:
        e["path"] = ["a", 0]
    elif shape == 3:
        e.update({"locations": LOC, "path": ["a"], "extensions": {"code": "X"}})
    return e


def build_body(kind, has_data, data_kind, has_errors, n_err, e0, e1, extra):
    if kind == 0:
        return None
    if kind == 1:
        return 7
    if kind == 2:
        return "s"
    if kind == 3:
        return [1]
    body = {}
    if has_data:
        body["data"] = None if data_kind == 0 else ({} if data_kind == 1 else {"a": 1})
    if has_errors:
        if n_err == 0:
            body["errors"] = None
        elif n_err == 1:
            body["errors"] = []
        elif n_err == 2:
            body["errors"] = [build_error(e0)]
        else:
            body["errors"] = [build_error(e0), build_error(e1)]
    if extra:
        body["extensions"] = {"x": 1}
    return body


def spec(status, json_ok, lazy):
    """decision table written from the property statement"""
    if not (200 <= status <= 299):
        return ("http", status)
    if not json_ok:
        return ("invalid",)
    body = lazy.get()
    if not isinstance(body, dict) or ("data" not in body and "errors" not in body):
        return ("invalid",)
    errs = body.get("errors")
    if errs:
        return ("multi", [(e["message"], e.get("locations"), e.get("path"), e.get("extensions"), e) for e in errs], body.get("data"))
    return ("data", body.get("data"))


def observe(cls, status, json_ok, body):
    client = cls.__new__(cls)
    resp = StubResponse(status, json_ok, body)
    try:
        d = client.get_data(resp)
        return ("data", d)
    except X.GraphQLClientHttpError as e:
        return ("http", e.status_code) if e.response is resp else ("http-wrong-response",)
    except X.GraphQLClientInvalidResponseError as e:
        return ("invalid",) if e.response is resp else ("invalid-wrong-response",)
    except X.GraphQLClientGraphQLMultiError as e:
        return ("multi", [(g.message, g.locations, g.path, g.extensions, g.original) for g in e.errors], e.data)
    except Exception as e:  # any other exception type escaping is a violation
        return ("other-exception", type(e).__name__)


def _check(ci: int, status: int, json_ok: bool, kind: int, has_data: bool, data_kind: int, has_errors: bool, n_err: int, e0: int, e1: int, extra: bool) -> bool:
    body = LazyBody(kind, has_data, data_kind, has_errors, n_err, e0, e1, extra)
    jo = True if json_ok else False
    got = observe(CLIENTS[ci], status, jo, body)
    want = spec(status, jo, body)
    return got == want


def check_base(status: int, json_ok: bool, kind: int, has_data: bool, data_kind: int, has_errors: bool, n_err: int, e0: int, e1: int, extra: bool) -> bool:
    """
    pre: 100 <= status <= 599
    post: _
    """
    return _check(0, status, json_ok, kind, has_data, data_kind, has_errors, n_err, e0, e1, extra)


def check_async(status: int, json_ok: bool, kind: int, has_data: bool, data_kind: int, has_errors: bool, n_err: int, e0: int, e1: int, extra: bool) -> bool:
    """
    pre: 100 <= status <= 599
    post: _
    """
    return _check(1, status, json_ok, kind, has_data, data_kind, has_errors, n_err, e0, e1, extra)


def check_base_otel(status: int, json_ok: bool, kind: int, has_data: bool, data_kind: int, has_errors: bool, n_err: int, e0: int, e1: int, extra: bool) -> bool:
    """
    pre: 100 <= status <= 599
    post: _
    """
    return _check(2, status, json_ok, kind, has_data, data_kind, has_errors, n_err, e0, e1, extra)


def check_async_otel(status: int, json_ok: bool, kind: int, has_data: bool, data_kind: int, has_errors: bool, n_err: int, e0: int, e1: int, extra: bool) -> bool:
    """
    pre: 100 <= status <= 599
    post: _
    """
    return _check(3, status, json_ok, kind, has_data, data_kind, has_errors, n_err, e0, e1, extra)


def twin_multi_reached(status: int, json_ok: bool, kind: int, has_data: bool, data_kind: int, has_errors: bool, n_err: int, e0: int, e1: int, extra: bool) -> bool:
    """
    pre: 100 <= status <= 599
    post: _
    """
    body = LazyBody(kind, has_data, data_kind, has_errors, n_err, e0, e1, extra)
    got = observe(BaseClient, status, True if json_ok else False, body)
    return not (got[0] == "multi" and len(got[1]) == 2 and got[2] == {"a": 1})
