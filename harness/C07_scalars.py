"""C07 harness: custom scalars are parsed / serialised exactly once per non-null occurrence (instrumented user functions)."""
import importlib
import json
import os
import sys
import tempfile

from harness._h import NoTracing, known, opened_auditwall, pick
from vlib import gen
from vlib.extract import Package

SCAL = '''
from typing import Any
CALLS = []
class Code:
    def __init__(self, raw):
        self.raw = raw
    def __eq__(self, o):
        return isinstance(o, Code) and o.raw == self.raw
    def __repr__(self):
        return f"Code({self.raw!r})"
def parse_b(v: Any) -> Code:
    CALLS.append(("parse_b", v))
    return Code(v)
def ser_b(v) -> Any:
    CALLS.append(("ser_b", v))
    return "ser:" + str(v.raw)
def parse_p(v: Any) -> str:
    CALLS.append(("parse_p", v))
    return "p:" + str(v)
class Money:
    """a scalar whose parse function is the type itself (parse = type = .scal.Money)"""
    def __init__(self, raw):
        CALLS.append(("Money", raw))
        self.raw = raw
    def __eq__(self, o):
        return isinstance(o, Money) and o.raw == self.raw
def parse_q(v: Any) -> str:
    CALLS.append(("parse_q", v))
    return "q:" + str(v)
def ser_s(v) -> Any:
    CALLS.append(("ser_s", v))
    return str(v).upper()
'''
STACKS = ["T", "T!", "[T]", "[T!]!", "[[T]]", "[T]!"]
SCALARS = ["B", "P", "S", "DT", "U"]


def sdl():
    tf, ins, args = [], [], []
    for s in SCALARS:
        for i, st in enumerate(STACKS):
            tf.append(f"  r{s}{i}: {st.replace('T', s)}")
            ins.append(f"input I{s}{i} {{ f: {st.replace('T', s)} nested: I{s}{i} other: Int }}")
            args.append(f"  e{s}{i}(v: {st.replace('T', s)}): Int")
            args.append(f"  x{s}{i}(inp: I{s}{i}): Int")
    tf.append("  q: Q")
    tf.append("  m: M")
    tf.append("  r: R")
    tf.append("  ms: [M!]")
    args.append("  up(f: Upload!, dt: DT, inp: ISDT): Int")
    ins.append("input ISDT { dt: DT, s: S }")
    return ("scalar B\nscalar P\nscalar S\nscalar DT\nscalar U\nscalar Q\nscalar M\nscalar R\nscalar Upload\n"
            "interface Animal { id: ID! }\ntype Cat implements Animal { id: ID! born: P seen: [B!] }\ntype Dog implements Animal { id: ID! born: P }\ntype Fish implements Animal { id: ID! }\n"
            "union Pet = Cat | Dog\n"
            "type Query {\n  t: Obj!\n  zoo: [Animal!]!\n  zooOpt: [Animal]\n  star: Animal\n  pets: [[Pet!]]!\n" + "\n".join(args) + "\n}\n"
            "type Obj {\n" + "\n".join(tf) + "\n  sub: Obj\n  subs: [Obj!]\n}\n" + "\n".join(ins) + "\n")


def ops():
    out = ["fragment F on Obj { rB0 rP1 q }"]
    for s in SCALARS:
        for i, st in enumerate(STACKS):
            out.append(f"query R{s}{i} {{ t {{ r{s}{i} }} }}")
            out.append(f"query A{s}{i}($v: {st.replace('T', s)}) {{ e{s}{i}(v: $v) }}")
            out.append(f"query X{s}{i}($inp: I{s}{i}) {{ x{s}{i}(inp: $inp) }}")
    # Q has the same Python type as P but its own parse function: both occur in one operation and in one fragment
    out.append("query RM { t { m ms } }")
    out.append("query RR { t { r rP0 } }")
    out.append("query Up($f: Upload!, $dt: DT, $inp: ISDT) { up(f: $f, dt: $dt, inp: $inp) }")
    sel = "{ __typename id ... on Cat { born seen } ... on Dog { born } }"
    out.append(f"query Zoo {{ zoo {sel} zooOpt {sel} star {sel} pets {{ __typename ... on Cat {{ born }} ... on Dog {{ born }} }} }}")
    out.append("query Nest { t { q rP0 sub { rB0 subs { rB2 ...F } } } }")
    return "\n".join(out)


CONFIG = {"scalars": {"B": {"type": ".scal.Code", "parse": ".scal.parse_b", "serialize": ".scal.ser_b"},
                      "P": {"type": "str", "parse": ".scal.parse_p"},
                      "Q": {"type": "str", "parse": ".scal.parse_q"},
                      "M": {"type": ".scal.Money", "parse": ".scal.Money"},
                      # R's parse function has the same NAME as P's but lives in another module
                      "R": {"type": "str", "parse": ".scal2.parse_p"},
                      "S": {"type": "str", "serialize": ".scal.ser_s"},
                      "DT": {"type": "datetime.datetime"}},
          "files_to_include": ["scal.py", "scal2.py"], "target_package_name": "p07", "async_client": False}
SCAL2 = "def parse_p(v):\n    return 'r:' + str(v)\n"

SETUP_ERROR = ""
PKG = SC = None
META = {}
try:
    with opened_auditwall():
        _BASE = tempfile.mkdtemp(prefix="vh07_", dir="/tmp")
        _r = gen.generate({"schema": sdl(), "queries": ops(), "config": CONFIG, "files": {"scal.py": SCAL, "scal2.py": SCAL2}})
        if not _r["ok"]:
            raise RuntimeError(f"generation failed: {_r['exc_type']}: {_r['exc_msg']}")
        os.makedirs(os.path.join(_BASE, "p07"))
        for _fn, _src in _r["files"].items():
            with open(os.path.join(_BASE, "p07", _fn), "w") as _f:
                _f.write(_src)
        sys.path.insert(0, _BASE)
        PKG = importlib.import_module("p07")
        SC = importlib.import_module("p07.scal")
        META = {m.operation_name: m for m in Package(_r["files"], "p07").client_methods()}
except Exception as _e:  # the emitted package does not generate / load: every obligation below fails (reported after replay)
    SETUP_ERROR = f"{type(_e).__name__}: {_e}"

RAW = {"B": "b1", "P": "p1", "S": "s1", "DT": "2020-01-02T03:04:05", "U": {"k": 1}}


def shapes(stack: str):
    """value shapes for a wrapper stack: list of (label, builder(leaf)->value, count of non-null leaves)"""
    if stack == "T":
        return [("v", lambda x: x, 1), ("null", lambda x: None, 0)]
    if stack == "T!":
        return [("v", lambda x: x, 1)]
    if stack == "[T]":
        return [("null", lambda x: None, 0), ("[]", lambda x: [], 0), ("[v,null]", lambda x: [x, None], 1), ("[v,v]", lambda x: [x, x], 2)]
    if stack == "[T!]!":
        return [("[]", lambda x: [], 0), ("[v,v]", lambda x: [x, x], 2)]
    if stack == "[T]!":
        return [("[null]", lambda x: [None], 0), ("[v,null,v]", lambda x: [x, None, x], 2)]
    return [("null", lambda x: None, 0), ("[[v],null,[null,v]]", lambda x: [[x], None, [None, x]], 2), ("[[]]", lambda x: [[]], 0)]


def user_value(s, raw):
    """what user code must see for raw (results) / what the caller passes (arguments)"""
    if s == "B":
        return SC.Code(raw)
    if s == "P":
        return "p:" + raw
    if s == "DT":
        import datetime

        return datetime.datetime.fromisoformat(raw)
    return raw


def sent_value(s, raw):
    if s == "B":
        return "ser:" + raw
    if s == "S":
        return raw.upper()
    return raw


def result_case(si: int, ki: int, sh: int):
    s, stack = SCALARS[si], STACKS[ki]
    shp = shapes(stack)
    label, build, nleaf = shp[sh % len(shp)]
    raw = RAW[s]
    payload = {"t": {f"r{s}{ki}": build(raw)}}
    del SC.CALLS[:]
    mod = importlib.import_module(f"p07.r{s.lower()}{ki}") if False else None
    mi = META[f"R{s}{ki}"]
    Model = getattr(PKG, mi.model)
    obj = Model.model_validate(payload)
    got = getattr(obj.t, [n for n in type(obj.t).model_fields][0])
    calls = list(SC.CALLS)
    want_calls = {"B": [("parse_b", raw)] * nleaf, "P": [("parse_p", raw)] * nleaf}.get(s, [])
    want = build(user_value(s, raw))
    return got == want and calls == want_calls, f"{s} {stack} {label}: got {got!r} calls {calls}"


class Recorder:
    def __init__(self):
        self.calls = []

    def post(self, **kw):
        self.calls.append(kw)
        return "RESP"


def new_client():
    c = PKG.Client.__new__(PKG.Client)
    c.url, c.headers = "http://x", None
    c.http_client = Recorder()
    c.get_data = lambda r: {}
    return c


def invoke(c, name, *args):
    """call the generated method; what happens after the request was posted (validation of the stub data) is irrelevant here"""
    try:
        getattr(c, name)(*args)
    except Exception:
        if not c.http_client.calls:
            raise


def arg_case(si: int, ki: int, sh: int):
    """top-level variable of scalar type; extra shape index len(shapes) = omitted"""
    s, stack = SCALARS[si], STACKS[ki]
    shp = shapes(stack)
    raw = RAW[s]
    mi = META[f"A{s}{ki}"]
    c = new_client()
    del SC.CALLS[:]
    k = sh % (len(shp) + (0 if stack.endswith("!") else 1))
    try:
        if k == len(shp):
            invoke(c, mi.name)
            label, expected_vars, nleaf = "omitted", {}, 0
        else:
            label, build, nleaf = shp[k]
            arg = build(user_value(s, raw) if s in ("B",) else raw)
            invoke(c, mi.name, arg)
            expected_vars = {"v": build(sent_value(s, raw))}
    except Exception as e:
        return False, f"{s} {stack} shape#{k}: call failed {type(e).__name__}: {str(e)[:120]}", (s, stack, k, "exc")
    body = json.loads(c.http_client.calls[0]["content"])
    calls = list(SC.CALLS)
    ser = {"B": "ser_b", "S": "ser_s"}.get(s)
    want_calls = [(ser, user_value(s, raw) if s == "B" else raw)] * nleaf if ser else []
    ok = body["variables"] == expected_vars and calls == want_calls
    return ok, f"{s} {stack} {label}: sent {body['variables']} calls {calls}", (s, stack, k, "mismatch")


def input_case(si: int, ki: int, sh: int, nested: bool):
    """scalar inside a (nested) generated input model"""
    s, stack = SCALARS[si], STACKS[ki]
    shp = shapes(stack)
    raw = RAW[s]
    label, build, nleaf = shp[sh % len(shp)]
    In = getattr(PKG, f"I{s}{ki}")
    val = build(user_value(s, raw) if s == "B" else raw)
    inner = In(f=val)
    if nested:
        if stack.endswith("!"):
            arg = In(f=build(user_value(s, raw) if s == "B" else raw), nested=inner)
            nleaf = nleaf * 2
        else:
            arg = In(nested=inner)
    else:
        arg = inner
    c = new_client()
    del SC.CALLS[:]
    try:
        invoke(c, META[f"X{s}{ki}"].name, arg)
    except Exception as e:
        return False, f"input {s} {stack} {label}: call failed {type(e).__name__}: {str(e)[:120]}"
    body = json.loads(c.http_client.calls[0]["content"])
    exp_inner = {"f": build(sent_value(s, raw))}
    if nested:
        expected = {"inp": dict(exp_inner, nested=exp_inner) if stack.endswith("!") else {"nested": exp_inner}}
    else:
        expected = {"inp": exp_inner}
    ser = {"B": "ser_b", "S": "ser_s"}.get(s)
    calls = list(SC.CALLS)
    want_calls = [(ser, user_value(s, raw) if s == "B" else raw)] * nleaf if ser else []
    return body["variables"] == expected and calls == want_calls, f"input {s} {stack} {label} nested={nested}: sent {body['variables']} calls {calls}"


def nested_result_case(which: int):
    del SC.CALLS[:]
    mi = META["Nest"]
    Model = getattr(PKG, mi.model)
    if which == 0:
        payload = {"t": {"q": "qq", "rP0": "pp", "sub": {"rB0": "x", "subs": [{"rB2": ["y", None], "rB0": None, "rP1": "z", "q": "w"}]}}}
        want_calls = [("parse_q", "qq"), ("parse_p", "pp"), ("parse_b", "x"), ("parse_b", "y"), ("parse_p", "z"), ("parse_q", "w")]
    else:
        payload = {"t": {"sub": None, "q": None, "rP0": None}}
        want_calls = []
    obj = Model.model_validate(payload)
    ok = sorted(map(str, SC.CALLS)) == sorted(map(str, want_calls))
    if which == 0:
        ok = ok and obj.t.q == "q:qq" and obj.t.sub.subs[0].q == "q:w" and obj.t.sub.subs[0].r_p_1 == "p:z"
    return ok, f"nested: calls {SC.CALLS}"


def abstract_case(which: int):
    """scalars with parse inside members of abstract types held in (non-null / nullable / nested) lists: once per occurrence"""
    del SC.CALLS[:]
    Model = getattr(PKG, META["Zoo"].model)
    cat = {"__typename": "Cat", "id": "1", "born": "c1", "seen": ["s1", "s2"]}
    dog = {"__typename": "Dog", "id": "2", "born": "d1"}
    fish = {"__typename": "Fish", "id": "3"}
    empty = {"zoo": [], "zooOpt": None, "star": None, "pets": []}
    payload, want = [
        (dict(empty, zoo=[dog, cat, fish]), [("parse_p", "d1"), ("parse_p", "c1"), ("parse_b", "s1"), ("parse_b", "s2")]),
        (dict(empty, zooOpt=[cat, None, dog]), [("parse_p", "c1"), ("parse_b", "s1"), ("parse_b", "s2"), ("parse_p", "d1")]),
        (dict(empty, star=dog), [("parse_p", "d1")]),
        (dict(empty, pets=[[{"__typename": "Dog", "born": "d1"}], None, [{"__typename": "Cat", "born": None}, {"__typename": "Dog", "born": "d2"}]]), [("parse_p", "d1"), ("parse_p", "d2")]),
        (dict(empty, zoo=[dict(cat, born=None, seen=None)]), []),
    ][which]
    Model.model_validate(payload)
    return sorted(map(str, SC.CALLS)) == sorted(map(str, want)), f"abstract #{which}: calls {SC.CALLS}"


def falsy_case(which: int):
    """a falsy but non-null value ("" for a scalar of type str with serialize) is an occurrence like any other: serialize is called
    once for it - as a nullable / non-null top-level variable and as an input field"""
    del SC.CALLS[:]
    c = new_client()
    if which < 2:
        invoke(c, META[f"AS{which}"].name, "")
        expected = {"v": ""}
    else:
        In = getattr(PKG, "IS0" if which == 2 else "IS1")
        invoke(c, META["XS0" if which == 2 else "XS1"].name, In(f=""))
        expected = {"inp": {"f": ""}}
    body = json.loads(c.http_client.calls[0]["content"])
    return body["variables"] == expected and list(SC.CALLS) == [("ser_s", "")], f"falsy #{which}: sent {body['variables']} calls {SC.CALLS}"


def upload_case(which: int):
    """custom scalars travel the same way when the request is multipart (a variable holds an Upload): a type-only scalar through
    pydantic's JSON encoding, a scalar with serialize through serialize - top level and inside an input model"""
    import datetime
    import io

    del SC.CALLS[:]
    c = new_client()
    base = importlib.import_module("p07.base_model")
    f = base.Upload(filename="a.txt", content=io.BytesIO(b"x"), content_type="text/plain")
    dt = datetime.datetime(2020, 1, 2, 3, 4, 5)
    kwargs = [{"dt": dt}, {"inp": PKG.ISDT(s="s1")}, {"inp": PKG.ISDT(dt=dt, s="s2")}, {}][which]
    try:
        getattr(c, META["Up"].name)(f, **kwargs)
    except Exception:
        if not c.http_client.calls:
            raise
    call = c.http_client.calls[0]
    if "data" not in call:
        return False, f"upload #{which}: not multipart: {sorted(call)}"
    ops = json.loads(call["data"]["operations"])
    want = [{"f": None, "dt": "2020-01-02T03:04:05"}, {"f": None, "inp": {"s": "S1"}}, {"f": None, "inp": {"dt": "2020-01-02T03:04:05", "s": "S2"}}, {"f": None}][which]
    want_calls = [[], [("ser_s", "s1")], [("ser_s", "s2")], []][which]
    return ops["variables"] == want and list(SC.CALLS) == want_calls, f"upload #{which}: sent {ops['variables']} calls {SC.CALLS}"


def check_scalars_in_multipart(which: int) -> bool:
    """
    post: _
    """
    if SETUP_ERROR:
        return False
    w = pick(which, 4)
    with NoTracing():
        try:
            ok, _ = upload_case(w)
        except Exception:
            ok = False
    return ok


def parse_is_type_case(which: int):
    """a scalar configured with parse = its own type: every non-null occurrence is built by calling the type once"""
    del SC.CALLS[:]
    Model = getattr(PKG, META["RM"].model)
    payload, want = [({"t": {"m": "1.5", "ms": ["2", "3"]}}, [("Money", "1.5"), ("Money", "2"), ("Money", "3")]),
                     ({"t": {"m": None, "ms": None}}, []), ({"t": {"m": "x", "ms": []}}, [("Money", "x")])][which]
    obj = Model.model_validate(payload)
    ok = list(SC.CALLS) == want
    if which == 0:
        ok = ok and isinstance(obj.t.m, SC.Money) and obj.t.m.raw == "1.5" and [x.raw for x in obj.t.ms] == ["2", "3"]
    return ok, f"parse-is-type #{which}: calls {SC.CALLS}"


def check_parse_is_type(which: int) -> bool:
    """
    post: _
    """
    if SETUP_ERROR:
        return False
    w = pick(which, 3)
    with NoTracing():
        try:
            ok, _ = parse_is_type_case(w)
        except Exception:
            ok = False
    return ok


def same_name_case():
    """two scalars whose parse functions have the same name in different modules: each value goes through ITS scalar's function"""
    del SC.CALLS[:]
    Model = getattr(PKG, META["RR"].model)
    obj = Model.model_validate({"t": {"r": "x", "rP0": "y"}})
    return obj.t.r == "r:x" and obj.t.r_p_0 == "p:y", f"same-name: r={obj.t.r!r} rP0={obj.t.r_p_0!r}"


def check_same_named_functions(x: bool) -> bool:
    """
    post: _
    """
    if SETUP_ERROR:
        return False
    with NoTracing():
        try:
            ok, detail = same_name_case()
        except Exception:
            ok, detail = False, "exception"
        listed = (not ok) and ("r='p:x'" in detail or "rP0='r:y'" in detail)
    if listed:
        # the later `from .scal2 import parse_p` rebinds the name the earlier scalar's annotation refers to
        return known("C07-same-named-functions-collide")
    return ok


def check_falsy_values(which: int) -> bool:
    """
    post: _
    """
    if SETUP_ERROR:
        return False
    w = pick(which, 4)
    with NoTracing():
        try:
            ok, _ = falsy_case(w)
        except Exception:
            ok = False
    return ok


def check_abstract_results(which: int) -> bool:
    """
    post: _
    """
    if SETUP_ERROR:
        return False
    w = pick(which, 5)
    with NoTracing():
        try:
            ok, _ = abstract_case(w)
        except Exception:
            ok = False
    return ok


def check_results(si: int, ki: int, sh: int) -> bool:
    """
    post: _
    """
    if SETUP_ERROR:
        return False
    a, b, c = pick(si, len(SCALARS)), pick(ki, len(STACKS)), pick(sh, 4)
    with NoTracing():
        try:
            ok, _ = result_case(a, b, c)
        except Exception:
            ok = False
    return ok


def check_arguments(si: int, ki: int, sh: int) -> bool:
    """
    post: _
    """
    if SETUP_ERROR:
        return False
    a, b, c = pick(si, len(SCALARS)), pick(ki, len(STACKS)), pick(sh, 5)
    with NoTracing():
        ok, detail, cls = arg_case(a, b, c)
        s, stack, k, kind = cls
        shp = shapes(stack)
        is_known = (not ok) and s in ("B", "S") and (k == len(shp) or shp[k][0] != "v")
    if is_known:
        # the generated method calls serialize(arg) on the whole top-level argument (UNSET, None, lists)
        return known("C07-toplevel-serialize-unconditional")
    return ok


def check_inputs(si: int, ki: int, sh: int, nested: bool) -> bool:
    """
    post: _
    """
    if SETUP_ERROR:
        return False
    a, b, c = pick(si, len(SCALARS)), pick(ki, len(STACKS)), pick(sh, 4)
    n = True if nested else False
    with NoTracing():
        try:
            ok, _ = input_case(a, b, c, n)
        except Exception:
            ok = False
    return ok


def check_nested_results(which: int) -> bool:
    """
    post: _
    """
    if SETUP_ERROR:
        return False
    w = pick(which, 2)
    with NoTracing():
        try:
            ok, _ = nested_result_case(w)
        except Exception:
            ok = False
    return ok


def twin_parse_twice_reached(si: int, ki: int, sh: int) -> bool:
    """
    post: _
    """
    a, b, c = pick(si, len(SCALARS)), pick(ki, len(STACKS)), pick(sh, 4)
    if SETUP_ERROR:
        return True
    with NoTracing():
        try:
            ok, _ = result_case(a, b, c)
        except Exception:
            ok = False
        n = len(SC.CALLS)
    return not (ok and n == 2)


# ---- configuration variants: every needed import is emitted (the package loads) ----------------------
VARIANTS = [
    {"type": "str"},
    {"type": "datetime.datetime"},
    {"type": ".scal.Code", "parse": ".scal.parse_b", "serialize": ".scal.ser_b"},
    {"type": "Code", "parse": "parse_b", "serialize": "ser_b", "import": ".scal"},
    {"type": "scal.Code", "parse": "scal.parse_b"},
    {"type": ".scal.Code", "serialize": ".scal.ser_b"},
    {"type": "decimal.Decimal", "parse": ".scal.parse_p"},
]
V_SDL = "scalar X\ntype Query { get(x: X, i: In): Obj deep(o: Outer, u: Unused): Int }\ntype Obj { x: X xs: [X!] }\ninput In { x: X! xs: [X] }\ninput Outer { label: String inner: Inner }\ninput Inner { when: X! }\ninput Unused { x: X }"
V_OPS = "query G($x: X, $i: In) { get(x: $x, i: $i) { x xs } }\nfragment Fx on Obj { x }\nquery H { get { ...Fx } }\nquery D($o: Outer) { deep(o: $o) }"
V_OPS_NESTED_ONLY = "query D($o: Outer) { deep(o: $o) }"


def variant_case(v: int, is_async: bool, pruned: bool = False):
    name = f"p07v{v}{int(is_async)}{int(pruned)}"
    cfg = {"scalars": {"X": VARIANTS[v]}, "files_to_include": ["scal.py"], "target_package_name": name, "async_client": is_async}
    if pruned:
        # the scalar occurs only in an input type that is reachable through another input, and unused inputs are pruned
        cfg.update({"include_all_inputs": False, "include_all_enums": False})
    r = gen.generate({"schema": V_SDL, "queries": V_OPS_NESTED_ONLY if pruned else V_OPS, "files": {"scal.py": SCAL}, "config": cfg})
    if not r["ok"]:
        return False, f"generation failed: {r['exc_type']}: {r['exc_msg'][:200]}"
    base = tempfile.mkdtemp(prefix="vh07v_", dir="/tmp")
    try:
        os.makedirs(os.path.join(base, name))
        for fn, src in r["files"].items():
            with open(os.path.join(base, name, fn), "w") as f:
                f.write(src)
        with open(os.path.join(base, "scal.py"), "w") as f:
            f.write(SCAL)  # for the absolute dotted path variant the user's module must be importable, as in real use
        sys.path.insert(0, base)
        try:
            for m in (["", ".client", ".input_types", ".d"] if pruned else ["", ".client", ".input_types", ".g", ".h", ".d", ".fragments"]):
                importlib.import_module(name + m)
        except Exception as e:
            return False, f"import failed: {type(e).__name__}: {str(e)[:200]}"
        finally:
            sys.path.remove(base)
            for k in [k for k in sys.modules if k == name or k.startswith(name + ".") or k == "scal"]:
                del sys.modules[k]
        return True, ""
    finally:
        import shutil

        shutil.rmtree(base, ignore_errors=True)


def check_config_variants(v: int, is_async: bool, pruned: bool) -> bool:
    """
    post: _
    """
    k = pick(v, len(VARIANTS))
    a = True if is_async else False
    pr = True if pruned else False
    with NoTracing():
        with opened_auditwall():
            ok, _ = variant_case(k, a, pr)
    return ok
