"""C04 harness: every valid input generates, and what is generated loads (configuration product x construct-covering inputs)."""
import ast
import os

from harness._h import NoTracing, known, opened_auditwall, pick
from vlib import corpus, gen

MIXINS = "class MixA:\n    pass\n\n\nclass MixB:\n    pass\n"
SCAL = "def parse_d(v):\n    return v\ndef ser_d(v):\n    return v\n"

INPUTS = []  # (name, sdl, queries, extra config, extra files, has_subscription)
INPUTS.append(("abstract", corpus.S_ABS,
               "query A1($id: ID) { node(id: $id) { id ... on User { name friends { id } } ... on Bot { model } } nodeReq { ...NodeF } }\n"
               "query A2 { things { __typename ... on User { ...UserF color } ... on Dog { barks owner { name } } } }\n"
               "query A3 { user { ...UserDeepF ...NestF } matrix { id } named { name ... on User { age } } }\n"
               + "\n".join(corpus.FRAGS_ABS[f] for f in ("NodeF", "UserF", "UserDeepF", "NestF")), {}, {}, False))
_wsdl, _wops = corpus.wrappers_ops(1)
INPUTS.append(("wrappers", _wsdl, "\n".join(t for _, t in _wops), {}, {}, False))
INPUTS.append(("inputs", corpus.inputs_schema(1),
               "query I1($a: WString, $f: WEnum, $g: WIn, $n: Names, $r: Rec, $d2: Defs) { ping(a: $a, f: $f, g: $g, n: $n, r: $r, d2: $d2) }\nquery I2($b: WInt!, $h: WScalar) { ping(b: $b, h: $h) }", {}, {}, False))
INPUTS.append(("roots",
               "schema { query: RootQ mutation: RootM subscription: RootS }\ntype RootQ { me(sort: Sort, by: [Axis!] = [X]): Person }\ntype RootM { rename(n: String!, tags: [String!] = [\"a\"]): Person! }\ntype RootS { ticks(n: Int): Int! people: Person }\n"
               "interface Being { id: ID! }\ninterface Named implements Being { id: ID! name: String }\ntype Person implements Being & Named { id: ID! name: String boss: Person kind: Kind }\nenum Kind { A B }\ninput Loop { next: Loop, k: Kind = A }\nenum Sort { ASC DESC }\nenum Axis { X Y }\n",
               "query Me($s: Sort, $by: [Axis!]) { me(sort: $s, by: $by) { id name boss { boss { id } } kind } }\nmutation Ren($n: String!) { rename(n: $n) { id } }\nsubscription Ticks($n: Int) { ticks(n: $n) }\nsubscription People { people { id name } }", {}, {}, True))
INPUTS.append(("scalars_mixins",
               "scalar Date\nscalar Blob\nscalar Stamp\nscalar Money\ntype Query { when(d: Date, b: Blob): Ev range(stamps: [Stamp!], grid: [[Money]]): Int }\ntype Ev { at: Date! until: [Date] raw: Blob loc: Loc near(d: Date, s: Stamp, m: [Money!]): Ev }\ntype Loc { lat: Float! lon: Float! }\ninput Win { from: Date!, to: Date }\ntype Mutation { book(w: Win!): Ev }",
               "query When($d: Date, $b: Blob) { when(d: $d, b: $b) { at until raw loc @mixin(from: \".mixins\", import: \"MixA\") @mixin(from: \".mixins\", import: \"MixB\") { lat lon } ...EvF } }\n"
               "mutation Book($w: Win!) { book(w: $w) { at } }\nfragment EvF on Ev @mixin(from: \".mixins\", import: \"MixA\") { at }\n"
               "query Range($stamps: [Stamp!], $grid: [[Money]]) { range(stamps: $stamps, grid: $grid) }\n"
               "query LastWithoutScalarVariables { when { raw } }",
               {"scalars": {"Date": {"type": "str", "parse": ".scal.parse_d", "serialize": ".scal.ser_d"}, "Stamp": {"type": "datetime.datetime"}, "Money": {"type": "decimal.Decimal", "serialize": ".scal.ser_d"}},
                "files_to_include": ["mixins.py", "scal.py"]},
               {"mixins.py": MIXINS, "scal.py": SCAL}, False))
INPUTS.append(("upload", "scalar Upload\ntype Query { ok: Boolean }\ntype Mutation { up(f: Upload!, fs: [Upload!], meta: Meta): Boolean }\ninput Meta { file: Upload, note: String }",
               "mutation Up($f: Upload!, $fs: [Upload!], $meta: Meta) { up(f: $f, fs: $fs, meta: $meta) }\nquery Ok { ok }", {}, {}, False))

INPUTS.append(("two_enums_in_fragments",
               "type Query { item: Item! items: [Item!] }\ntype Item { id: ID! colour: Colour material: Material! size: Size tags: [Tag!] when: Stamp }\nenum Colour { RED }\nenum Material { WOOD }\nenum Size { S M }\nenum Tag { A }\nscalar Stamp",
               "query One { item { ...ColourF ...MaterialF } }\nquery Two { items { ...SizeF ...TagF id } }\nquery Three { item { ...StampF ...ColourF } }\n"
               "fragment ColourF on Item { colour }\nfragment MaterialF on Item { material }\nfragment SizeF on Item { size }\nfragment TagF on Item { tags }\nfragment StampF on Item { when }",
               {"scalars": {"Stamp": {"type": "str", "parse": ".scal.parse_d"}}, "files_to_include": ["scal.py"]}, {"scal.py": SCAL}, False))

DOCUMENTED = ("ariadne_codegen.exceptions.NotSupported", "ariadne_codegen.exceptions.ParsingError")


def config_for(bits):
    snake, is_async, otel, all_in, all_en, custom_ops, comments, names = bits
    cfg = {"convert_to_snake_case": snake, "async_client": is_async, "opentelemetry_client": otel, "include_all_inputs": all_in, "include_all_enums": all_en,
           "enable_custom_operations": custom_ops, "include_comments": ["none", "stable", "timestamp"][comments]}
    if names:
        cfg.update({"client_name": "Gateway", "client_file_name": "gateway", "enums_module_name": "my_enums", "input_types_module_name": "my_inputs",
                    "fragments_module_name": "my_fragments", "target_package_name": "custom_pkg"})
    return cfg


def run_case(ii, bits):
    name, sdl, queries, extra_cfg, files, has_sub = INPUTS[ii]
    cfg = config_for(bits)
    cfg.update(extra_cfg)
    pkg = cfg.get("target_package_name", "gcl")
    r = gen.generate({"schema": sdl, "queries": queries, "config": cfg, "files": files})
    if r.get("harness_exc"):
        return "harness", [r["harness_exc"][-300:]]
    if not r["ok"]:
        if has_sub and not bits[1] and r["exc_type"] == "ariadne_codegen.exceptions.NotSupported" and "async" in (r["exc_msg"] or ""):
            return "documented_refusal", []
        return "gen_failed", [f"{r['exc_type']}: {(r['exc_msg'] or '')[:200]}"]
    probs = []
    fl = r["files"]
    for fn, src in fl.items():
        if fn.endswith(".py"):
            try:
                compile(src, fn, "exec")
            except SyntaxError as e:
                probs.append(f"{fn} is not valid Python: {e}")
    if sorted(r["listed"] or []) != sorted(fl):
        probs.append(f"reported files {sorted(r['listed'] or [])} != written {sorted(fl)}")
    imp = gen.pkg_eval({"files": fl, "pkg": pkg, "code": gen.IMPORT_CODE, "extra": {}})
    if not imp["ok"]:
        probs.append(f"package does not import: {imp.get('exc_type')}: {(imp.get('exc_msg') or '')[:200]}")
        return "import_failed", probs
    res = imp["result"]
    bad = {k: v for k, v in res["modules"].items() if v != "ok"}
    if bad:
        probs.append(f"modules do not import: {bad}")
    if res["incomplete"]:
        probs.append(f"pydantic models not fully built: {res['incomplete']}")
    try:
        tree = ast.parse(fl["__init__.py"])
        imported = [a.asname or a.name for n in tree.body if isinstance(n, ast.ImportFrom) for a in n.names]
        if sorted(res["all"] or []) != sorted(imported) or len(imported) != len(set(imported)):
            probs.append(f"__all__ != names re-exported by __init__ (duplicates or differences): {sorted(set(imported) ^ set(res['all'] or []))}")
    except SyntaxError:
        pass
    return ("ok" if not probs else "bad"), probs


def bits_from(snake, is_async, otel, all_in, all_en, custom_ops, comments, names):
    return (True if snake else False, True if is_async else False, True if otel else False, True if all_in else False, True if all_en else False,
            True if custom_ops else False, pick(comments, 3), True if names else False)


def classify(ii, bits, status, probs) -> str:
    text = " ".join(probs)
    custom_ops, names = bits[5], bits[7]
    if custom_ops and names and "input_types" in text and "No module named" in text and all("custom_" in p or "import" in p for p in probs):
        return "C04-custom-operations-input-module-hardcoded"
    all_in, all_en = bits[3], bits[4]
    if custom_ops and (not all_in or not all_en) and "cannot import name" in text and all("custom_" in p for p in probs):
        return "C04-custom-operations-with-pruned-types"
    return ""


def _check(ii: int, snake, is_async, otel, all_in, all_en, custom_ops, comments, names) -> bool:
    bits = bits_from(snake, is_async, otel, all_in, all_en, custom_ops, comments, names)
    with NoTracing():
        with opened_auditwall():
            status, probs = run_case(ii, bits)
        if status in ("ok", "documented_refusal"):
            return True
        kid = classify(ii, bits, status, probs)
    if kid:
        return known(kid)
    return False


def twin_documented_refusal_reached(snake: bool, all_in: bool) -> bool:
    """
    post: _
    """
    bits = bits_from(snake, False, False, all_in, all_in, False, 0, False)
    with NoTracing():
        with opened_auditwall():
            ii = [k for k, inp in enumerate(INPUTS) if inp[0] == "roots"][0]
            status, probs = run_case(ii, bits)
    return status != "documented_refusal"


QUICK = os.environ.get("VERIF_C04_QUICK", "1") == "1"


def parts_source() -> str:
    out = ["from harness.C04_generates import _check", ""]
    for ii in range(len(INPUTS)):
        for a in (False, True):
            for c in (False, True):
                if QUICK:
                    out.append(f"def check_gen_{ii}_{int(a)}{int(c)}(snake: bool, otel: bool, all_in: bool, names: bool) -> bool:\n    \"\"\"\n    post: _\n    \"\"\"\n"
                               f"    return _check({ii}, snake, {a}, otel, all_in, not all_in if otel else all_in, {c}, 1 if names else (2 if snake else 0), names)\n")
                else:
                    out.append(f"def check_gen_{ii}_{int(a)}{int(c)}(snake: bool, otel: bool, all_in: bool, all_en: bool, comments: int, names: bool) -> bool:\n    \"\"\"\n    post: _\n    \"\"\"\n"
                               f"    return _check({ii}, snake, {a}, otel, all_in, all_en, {c}, comments, names)\n")
    return "\n".join(out)


# ---- name stress: GraphQL names that are keywords / reserved / equal to names the emitted modules import ------------------------
def _q(fields):
    return "type Query { " + " ".join(f"{f}: Int" for f in fields) + " }", "query Q { " + " ".join(fields) + " }"


NAME_CASES = []
for _f in ["_class", "_in", "_and", "_copy", "__json", "_None", "class", "in", "None", "async", "copy", "json", "model_config", "dict", "_under", "schema", "fields", "typename__", "self", "Field", "match", "type", "model_fields_set", "construct", "x_", "camelCase", "snake_case", "UPPER", "_"]:
    NAME_CASES.append((f"result_field:{_f}",) + _q([_f]) + ({},))
for _v in ["in", "None", "True", "class", "mro", "_a_", "name", "value", "lower", "_x"]:
    NAME_CASES.append((f"enum_value:{_v}", f"enum E {{ {_v} OK }}\ntype Query {{ e: E f(e: E = {_v}): E }}", "query Q($e: E) { e f(e: $e) }", {}))
for _t in ["Optional", "List", "Field", "BaseModel", "Any", "Union", "Literal", "Annotated", "Enum", "Upload", "Client", "str", "int", "Dict", "UnsetType", "UNSET", "gql"]:
    NAME_CASES.append((f"object_type:{_t}", f"type Query {{ o: {_t} }}\ntype {_t} {{ id: ID sub: {_t} }}", "query Q { o { id sub { id } } }", {}))
    NAME_CASES.append((f"enum_type:{_t}", f"enum {_t} {{ A B }}\ntype Query {{ e(x: {_t}): {_t} }}", f"query Q($x: {_t}) {{ e(x: $x) }}", {}))
    NAME_CASES.append((f"input_type:{_t}", f"input {_t} {{ a: Int n: {_t} }}\ntype Query {{ e(x: {_t}): Int }}", f"query Q($x: {_t}) {{ e(x: $x) }}", {}))
for _a in ["self", "query", "variables", "kwargs", "_query", "response", "data", "in", "class", "operation_name", "Optional", "id", "type", "cls"]:
    NAME_CASES.append((f"variable:{_a}", f"type Query {{ f({_a}: Int): Int }}", f"query Q(${_a}: Int) {{ f({_a}: ${_a}) }}", {}))
for _o in ["class", "Import", "async", "query", "Client", "execute", "get_data", "_private", "A1", "client", "enums", "base_model", "fragments", "__init__"]:
    NAME_CASES.append((f"operation:{_o}", "type Query { a: Int }", f"query {_o} {{ a }}", {}))
for _i in ["class", "copy", "in", "_x", "json", "model_config", "self", "Field", "_and", "_or", "_not", "_copy", "modelDump", "modelConfig", "JSON"]:
    NAME_CASES.append((f"input_field:{_i}", f"input I {{ {_i}: Int = 1 }}\ntype Query {{ f(i: I): Int }}", "query Q($i: I) { f(i: $i) }", {}))
NAME_CASES.append(("fragment:class", "type Query { u: U }\ntype U { id: ID }", "query Q { u { ...class } }\nfragment class on U { id }", {}))
NAME_CASES.append(("fragment:Optional", "type Query { u: U }\ntype U { id: ID n: Int }", "query Q { u { ...Optional n } }\nfragment Optional on U { id }", {}))
NAME_CASES.append(("digit_after_underscore", "type Query { _1: Int }", "query Q { _1 }", {}))
NAME_CASES.append(("colliding_fields", "type Query { fooBar: Int foo_bar: String }", "query Q { fooBar foo_bar }", {}))


def name_case(k: int, snake: bool):
    label, sdl, q, cfg = NAME_CASES[k]
    from graphql import build_schema, parse, validate, validate_schema

    try:
        sch = build_schema(sdl)
        if validate_schema(sch) or validate(sch, parse(q)):
            return "invalid_case", []
    except Exception:
        return "invalid_case", []
    c = dict(cfg)
    c["convert_to_snake_case"] = snake
    r = gen.generate({"schema": sdl, "queries": q, "config": c})
    if not r["ok"]:
        if r["exc_type"] in DOCUMENTED and "Duplicated file names" in (r["exc_msg"] or ""):
            return "documented_refusal", []
        return "gen_failed", [f"{r['exc_type']}: {(r['exc_msg'] or '')[:160]}"]
    imp = gen.pkg_eval({"files": r["files"], "code": gen.IMPORT_CODE})
    if not imp["ok"]:
        return "import_failed", [f"{imp.get('exc_type')}: {(imp.get('exc_msg') or '')[:200]}"]
    bad = {m: v for m, v in imp["result"]["modules"].items() if v != "ok"}
    if bad or imp["result"]["incomplete"]:
        return "import_failed", [f"{bad} incomplete={imp['result']['incomplete']}"]
    return "ok", []


def classify_name(k, snake, status, probs) -> str:
    label = NAME_CASES[k][0]
    if label in ("enum_value:mro", "enum_value:_a_"):
        return "C04-enum-reserved-member"
    if label == "digit_after_underscore":
        return "C04-digit-after-underscores"
    kind, _, name = label.partition(":")
    if kind in ("object_type", "enum_type", "input_type", "fragment") and name in ("Optional", "List", "Union", "Any", "Literal", "Annotated", "BaseModel", "Field", "Enum", "Upload"):
        return "C04-type-name-shadows-import"
    if kind == "variable" and name in ("self", "kwargs"):
        return "C04-variable-named-self-or-kwargs"
    return ""


def _names(k, snake) -> bool:
    # no contract on purpose (see harness/C06_defaults.py)
    i = pick(k, len(NAME_CASES))
    sn = True if snake else False
    with NoTracing():
        with opened_auditwall():
            status, probs = name_case(i, sn)
        if status in ("ok", "invalid_case", "documented_refusal"):
            return True
        kid = classify_name(i, sn, status, probs)
    if kid:
        return known(kid)
    return False


def names_parts_source(nparts: int = 16) -> str:
    out = ["from harness.C04_generates import NAME_CASES, _names", "from harness._h import pick", ""]
    n = len(NAME_CASES)
    for p in range(nparts):
        lo, hi = p * n // nparts, (p + 1) * n // nparts
        out.append(f"def check_names_p{p}(j: int, snake: bool) -> bool:\n    \"\"\"\n    post: _\n    \"\"\"\n    return _names({lo} + pick(j, {hi - lo}), snake)\n")
    return "\n".join(out)
