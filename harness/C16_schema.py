"""C16 harness: the graphqlschema strategy reproduces the schema (feature grammar -> real pipeline -> exec -> print_schema)."""
import os

from harness._h import NoTracing, known, opened_auditwall, pick
from vlib import gen

DESCS = [None, "One line.", 'Multi line\nwith "quotes", \\backslash\\ and \'apostrophes\'.\n\n  indented']
DEFAULTS = [
    {},  # none
    {"i": "3", "s": '"x"', "b": "true", "f": "1.5", "id": '"7"'},
    {"e": "GREEN", "n": "null", "s": '"say \\"hi\\" \\\\ now"'},
    {"l": "[1, 2]", "ll": "[[1], [], [2, 3]]", "ls": '["a", "b"]'},
    {"o": "{a: 1, inner: {a: 2, c: RED}, tags: [\"t\"]}", "lo": "[{a: 1}, {a: 2, c: GREEN}]"},
    {"f": "1e300", "f2": "-0.000001", "i": "-2147483648", "u": '"\\u00e9\\u4e2d"'},
]
FLAGSETS = [
    dict(dep=False, iface2=False, roots=False, repeatable=False, specified=False, schema_desc=False, directive=False),
    dict(dep=True, iface2=True, roots=True, repeatable=True, specified=True, schema_desc=True, directive=True),
    dict(dep=True, iface2=False, roots=False, repeatable=False, specified=True, schema_desc=False, directive=True),
    dict(dep=False, iface2=True, roots=True, repeatable=False, specified=False, schema_desc=True, directive=False),
    dict(dep=False, iface2=False, roots=True, repeatable=True, specified=False, schema_desc=False, directive=True),
    dict(dep=True, iface2=True, roots=False, repeatable=True, specified=False, schema_desc=True, directive=True),
    dict(dep=False, iface2=True, roots=False, repeatable=False, specified=True, schema_desc=True, directive=True),
    dict(dep=True, iface2=False, roots=True, repeatable=False, specified=True, schema_desc=True, directive=False),
]


def d(desc, indent=""):
    if desc is None:
        return ""
    if "\n" in desc:
        body = desc.replace('"""', '\\"""')
        return f'{indent}"""\n' + "\n".join(indent + ln for ln in body.split("\n")) + f'\n{indent}"""\n'
    return f'{indent}"{desc}"\n'


def build_sdl(desc_i: int, def_i: int, flags: dict) -> str:
    ds = DESCS[desc_i]
    df = DEFAULTS[def_i]
    dep = ' @deprecated(reason: "old \\"stuff\\"")' if flags["dep"] else ""
    dep_plain = " @deprecated" if flags["dep"] else ""
    q, m, s = ("RootQ", "RootM", "RootS") if flags["roots"] else ("Query", "Mutation", "Subscription")
    out = []
    if flags["roots"] or flags["schema_desc"]:
        out.append((d("The schema.") if flags["schema_desc"] else "") + f"schema {{ query: {q} mutation: {m} subscription: {s} }}")
    if flags["directive"]:
        rep = " repeatable" if flags["repeatable"] else ""
        out.append(d(ds) + f"directive @tag(\n{d(ds, '  ')}  name: String! = \"n\"\n  weight: Int{dep_plain}\n  kind: Color = GREEN\n  at: Date\n  inner: Inner = {{a: 1}}\n){rep} on FIELD_DEFINITION | OBJECT | ARGUMENT_DEFINITION | ENUM_VALUE | INPUT_FIELD_DEFINITION")
    out.append(d(ds) + f"scalar Date" + (' @specifiedBy(url: "https://example.com/date")' if flags["specified"] else ""))
    out.append(d(ds) + f"enum Color {{\n{d(ds, '  ')}  RED\n  GREEN{dep}\n  BLUE\n}}")
    inner = "input Inner { a: Int!, c: Color, inner: Inner, tags: [String!] }"
    out.append(inner)
    fields = []
    names = {"i": "Int", "s": "String", "b": "Boolean", "f": "Float", "f2": "Float", "id": "ID", "e": "Color", "n": "Int", "l": "[Int!]", "ll": "[[Int]]",
             "ls": "[String]", "o": "Inner", "lo": "[Inner!]", "u": "String"}
    for k, t in names.items():
        default = f" = {df[k]}" if k in df else ""
        fields.append(f"{d(ds, '  ') if k == 'i' else ''}  {k}: {t}{default}{dep_plain if k == 's' else ''}")
    out.append(d(ds) + "input Filter {\n" + "\n".join(fields) + f"\n  req: Int!\n  lim2: Int! = 3{dep_plain}\n}}")
    args = ", ".join(f"{k}: {t}" + (f" = {df[k]}" if k in df else "") for k, t in names.items())
    out.append(d(ds) + "interface Node {\n" + d(ds, "  ") + "  id: ID!\n}")
    if flags["iface2"]:
        out.append("interface Named implements Node { id: ID! name: String }")
        impl = "implements Node & Named"
        extra = " name: String"
    else:
        impl = "implements Node"
        extra = ""
    out.append(d(ds) + f"type User {impl} {{\n  id: ID!{extra}\n{d(ds, '  ')}  search({args}, filter: Filter{dep_plain}, lim: Int! = 10{dep}): [User!]{dep}\n  born: Date\n  color: Color!\n}}")
    out.append(f"type Bot {impl} {{ id: ID!{extra} model: String }}")
    out.append(d(ds) + "union Thing = User | Bot")
    out.append(f"type {q} {{ node(id: ID!): Node things: [Thing] }}")
    out.append(f"type {m} {{ save(f: Filter!): User }}")
    out.append(f"type {s} {{ tick: Int! }}")
    return "\n\n".join(out) + "\n"


def schemas_equal(a, b):
    """structural comparison beyond printed SDL -> list of (category, message)"""
    from graphql import GraphQLEnumType, GraphQLInputObjectType, GraphQLInterfaceType, GraphQLObjectType, GraphQLScalarType, GraphQLUnionType

    probs = []

    def cmp(where, xa, xb, input_value=False):
        if str(xa.type) != str(xb.type):
            probs.append(("structure", f"{where}: type differs"))
        if getattr(xa, "default_value", None) != getattr(xb, "default_value", None):
            probs.append(("default", f"{where}: default differs ({xa.default_value!r} vs {xb.default_value!r})"))
        if xa.description != xb.description:
            probs.append(("description", f"{where}: description differs"))
        if xa.deprecation_reason != xb.deprecation_reason:
            probs.append(("input_deprecation" if input_value else "deprecation", f"{where}: deprecation differs"))

    for root in ("query_type", "mutation_type", "subscription_type"):
        if getattr(getattr(a, root), "name", None) != getattr(getattr(b, root), "name", None):
            probs.append(("structure", f"{root} differs"))
    if a.description != b.description:
        probs.append(("description", "schema description differs"))
    if sorted(a.type_map) != sorted(b.type_map):
        probs.append(("structure", f"type sets differ: {sorted(set(a.type_map) ^ set(b.type_map))}"))
        return probs
    for name, ta in a.type_map.items():
        if name.startswith("__"):
            continue
        tb = b.type_map[name]
        if type(ta) is not type(tb):
            probs.append(("structure", f"{name}: kind differs"))
            continue
        if ta.description != tb.description:
            probs.append(("description", f"{name}: description differs"))
        if isinstance(ta, GraphQLScalarType) and ta.specified_by_url != tb.specified_by_url:
            probs.append(("specifiedBy", f"{name}: specifiedBy differs"))
        if isinstance(ta, (GraphQLObjectType, GraphQLInterfaceType)):
            if [i.name for i in ta.interfaces] != [i.name for i in tb.interfaces]:
                probs.append(("structure", f"{name}: interfaces differ"))
            if list(ta.fields) != list(tb.fields):
                probs.append(("structure", f"{name}: fields differ"))
                continue
            for fn, fa in ta.fields.items():
                fb = tb.fields[fn]
                cmp(f"{name}.{fn}", fa, fb)
                if list(fa.args) != list(fb.args):
                    kept = [k for k in fa.args if fa.args[k].deprecation_reason is None]
                    probs.append(("deprecated_input_dropped" if list(fb.args) == kept else "structure", f"{name}.{fn}: args differ"))
                    continue
                for an, aa in fa.args.items():
                    cmp(f"{name}.{fn}({an})", aa, fb.args[an], True)
        if isinstance(ta, GraphQLUnionType) and [t.name for t in ta.types] != [t.name for t in tb.types]:
            probs.append(("structure", f"{name}: union members differ"))
        if isinstance(ta, GraphQLEnumType):
            if list(ta.values) != list(tb.values):
                probs.append(("structure", f"{name}: enum values differ"))
            else:
                for vn, va in ta.values.items():
                    vb = tb.values[vn]
                    if va.value != vb.value:
                        probs.append(("structure", f"{name}.{vn}: enum value differs"))
                    if va.description != vb.description:
                        probs.append(("description", f"{name}.{vn}: description differs"))
                    if va.deprecation_reason != vb.deprecation_reason:
                        probs.append(("deprecation", f"{name}.{vn}: deprecation differs"))
        if isinstance(ta, GraphQLInputObjectType):
            if list(ta.fields) != list(tb.fields):
                kept = [k for k in ta.fields if ta.fields[k].deprecation_reason is None]
                probs.append(("deprecated_input_dropped" if list(tb.fields) == kept else "structure", f"{name}: input fields differ"))
            else:
                for fn, fa in ta.fields.items():
                    cmp(f"{name}.{fn}", fa, tb.fields[fn], True)
    da = {x.name: x for x in a.directives}
    db = {x.name: x for x in b.directives}
    if sorted(da) != sorted(db):
        probs.append(("structure", f"directives differ: {sorted(set(da) ^ set(db))}"))
    else:
        for n, x in da.items():
            y = db[n]
            if list(x.locations) != list(y.locations) or list(x.args) != list(y.args):
                kept = [k for k in x.args if x.args[k].deprecation_reason is None]
                probs.append(("deprecated_input_dropped" if list(x.locations) == list(y.locations) and list(y.args) == kept else "structure", f"directive @{n} differs"))
                continue
            if x.is_repeatable != y.is_repeatable:
                probs.append(("repeatable", f"directive @{n}: repeatable differs"))
            if x.description != y.description:
                probs.append(("description", f"directive @{n}: description differs"))
            for an, aa in x.args.items():
                cmp(f"@{n}({an})", aa, y.args[an], True)
    return probs


VARNAMES = [("schema", "type_map"), ("my_schema", "types_by_name"), ("Undefined", "List")]  # the last pair: valid identifiers the emitted module also imports
FORMATS = ["py", "graphql", "gql"]


def run_case(desc_i, def_i, flag_i, fmt_i, var_i, introspected: bool, after_client: bool = False):
    from graphql import build_schema, print_schema

    sdl = build_sdl(desc_i, def_i, FLAGSETS[flag_i])
    try:
        src_schema = build_schema(sdl)
        from graphql import validate_schema

        errs = validate_schema(src_schema)
        if errs:
            return "invalid_case", [str(errs[0])]
    except Exception as e:
        return "invalid_case", [str(e)[:200]]
    fmt = FORMATS[fmt_i]
    sv, tv = VARNAMES[var_i]
    cfg = {"target_file_path": f"out_schema.{fmt}", "schema_variable_name": sv, "type_map_variable_name": tv}
    job = {"strategy": "graphqlschema", "config": cfg}
    if introspected:
        job["introspection"] = {"sdl": sdl}
        cfg["remote_schema_url"] = "http://x/graphql"
    else:
        job["schema"] = sdl
    if after_client == 2:
        # history: another graphqlschema run (other variable names, Python target) happened earlier in this process on the same text
        rc = gen.generate({"schema": sdl, "strategy": "graphqlschema", "config": {"target_file_path": "earlier_schema.py", "schema_variable_name": "earlier_schema", "type_map_variable_name": "earlier_types"}})
        if not rc["ok"]:
            return "gen_failed", [f"schema run before the schema run failed: {rc['exc_type']}: {rc['exc_msg'][:200]}"]
    elif after_client:
        # history: the client strategy ran earlier in this process on the very same schema text (it adds @mixin to ITS schema)
        rc = gen.generate({"schema": sdl, "queries": "query Q { __typename }", "config": {}})
        if not rc["ok"]:
            return "gen_failed", [f"client run before the schema run failed: {rc['exc_type']}: {rc['exc_msg'][:200]}"]
    r = gen.generate(job)
    if not r["ok"]:
        return "gen_failed", [f"{r['exc_type']}: {r['exc_msg'][:200]}"]
    text = r["files"][f"out_schema.{fmt}"]
    probs = []
    if fmt == "py":
        ns = {}
        try:
            exec(compile(text, "<generated schema>", "exec"), ns)
        except Exception as e:
            return "exec_failed", [f"{type(e).__name__}: {str(e)[:200]}"]
        if sv not in ns or tv not in ns:
            return "mismatch", [f"variable names {sv}/{tv} not defined by the module"]
        got = ns[sv]
    else:
        try:
            got = build_schema(text)
        except Exception as e:
            return "exec_failed", [f"emitted SDL does not parse: {str(e)[:200]}"]
    probs += schemas_equal(src_schema, got)
    if print_schema(got) != print_schema(src_schema):
        probs.append(("print" if probs else "print_only", "print_schema differs"))
    return ("ok" if not probs else "mismatch"), probs


def classify(introspected, status, probs, var_i=0) -> str:
    if var_i == 2 and status == "exec_failed":
        return "C16-variable-name-shadows-import"
    if introspected and status == "mismatch":
        cats = {p[0] for p in probs if isinstance(p, tuple)}
        if cats and cats <= {"description", "specifiedBy", "repeatable", "input_deprecation", "deprecated_input_dropped", "print"}:
            return "C16-introspection-lossy"
    return ""


NFLAG = int(os.environ.get("VERIF_C16_FLAGS", "4"))
NFMT = int(os.environ.get("VERIF_C16_FORMATS", "2"))


def _check(desc: int, dflt: int, flg: int, fmt: int, var: int, intro: bool) -> bool:
    a, b, c, e = pick(desc, 3), pick(dflt, len(DEFAULTS)), pick(flg, NFLAG), pick(fmt, NFMT)
    f = pick(var, len(VARNAMES)) if e == 0 else 0
    it = True if intro else False
    with NoTracing():
        with opened_auditwall():
            status, probs = run_case(a, b, c, e, f, it)
        if status in ("ok", "invalid_case"):
            return True
        kid = classify(it, status, probs, f)
    if kid:
        return known(kid)
    return False


def _history_check(desc: int, flg, fmt, earlier_schema_run: bool) -> bool:
    a, c, e = desc, pick(flg, NFLAG), pick(fmt, NFMT)
    h = 2 if earlier_schema_run else 1
    with NoTracing():
        with opened_auditwall():
            # every path starts from freshly imported generator modules: the history under test is the one built inside this path,
            # not what earlier explored paths left behind (and the counterexample replays in a fresh interpreter)
            import sys

            for k in [k for k in sys.modules if k == "ariadne_codegen" or k.startswith("ariadne_codegen.")]:
                del sys.modules[k]
            status, probs = run_case(a, 4, c, e, 0, False, h)
    return status in ("ok", "invalid_case")


def parts_source() -> str:
    out = ["from harness.C16_schema import _check, _history_check", ""]
    for hist in (False, True):
        for desc in range(3):
            out.append(f"def check_schema_history_{int(hist)}_s{desc}(flg: int, fmt: int) -> bool:\n    \"\"\"\n    post: _\n    \"\"\"\n    return _history_check({desc}, flg, fmt, {hist})\n")
    for dflt in range(len(DEFAULTS)):
        for desc in range(3):
            out.append(f"def check_schema_d{dflt}_s{desc}(flg: int, fmt: int, var: int, intro: bool) -> bool:\n    \"\"\"\n    post: _\n    \"\"\"\n    return _check({desc}, {dflt}, flg, fmt, var, intro)\n")
    return "\n".join(out)


def twin_full_features_ok(flg: int, fmt: int, var: int, intro: bool) -> bool:
    """
    post: _
    """
    c, e, f = pick(flg, len(FLAGSETS)), pick(fmt, 3), pick(var, 2)
    with NoTracing():
        with opened_auditwall():
            status, probs = run_case(2, 4, c, e, f, False)
    return not (status == "ok" and c == 1 and e == 0)
