"""helpers shared by CrossHair harness modules"""
import json
import os

try:
    from crosshair.tracers import NoTracing
    from crosshair.auditwall import opened_auditwall
except Exception:  # pragma: no cover - concrete replay without crosshair installed
    import contextlib

    NoTracing = contextlib.nullcontext  # type: ignore

    def opened_auditwall():  # type: ignore
        return contextlib.nullcontext()


def pick(v: int, n: int) -> int:
    """map a symbolic int onto 0..n-1 by a cascade of equality tests (forks one path per value, no precondition)"""
    for k in range(n - 1):
        if v == k:
            return k
    return n - 1


def _side(rec: dict) -> None:
    p = os.environ.get("VERIF_XH_SIDE")
    if not p:
        return
    with NoTracing():
        with opened_auditwall():
            with open(p, "a") as f:
                f.write(json.dumps(rec) + "\n")


def known(fid: str) -> bool:
    """record that the current path hit the listed known finding `fid`; returns True so the harness can `return known(..)`"""
    _side({"k": "known", "id": fid})
    return True


def path_done() -> None:
    """kept for older harnesses: paths are now counted by the hook below"""
    return None


def _install_path_counter() -> None:
    """count the execution paths CrossHair explores: crosshair.core.analyze_calltree calls the module-level attempt_call
    exactly once per path (iteration); the wrapper records each one with its verdict in the side channel"""
    if not os.environ.get("VERIF_XH_SIDE"):
        return
    try:
        import crosshair.core as cc
    except Exception:
        return
    if getattr(cc.attempt_call, "_verif_counted", False):
        return
    orig = cc.attempt_call

    def attempt_call(*a, **k):
        st = "aborted"
        try:
            r = orig(*a, **k)
            vs = getattr(r, "verification_status", None)
            st = vs.name.lower() if vs is not None else "ignored"
            return r
        finally:
            try:
                with open(os.environ["VERIF_XH_SIDE"], "a") as f:
                    f.write(json.dumps({"k": "path", "st": st}) + "\n")
            except Exception:
                pass

    attempt_call._verif_counted = True  # type: ignore
    cc.attempt_call = attempt_call


_install_path_counter()
