"""helpers shared by CrossHair harness modules"""
import json
import os

try:
    from crosshair.tracers import NoTracing
    from crosshair.auditwall import opened_auditwall
except Exception:  # pragma: no cover - concrete replay without crosshair installed
    import contextlib

    NoTracing = contextlib.nullcontext  # type: ignore

    def opened_auditwall():  # type: ignore
        return contextlib.nullcontext()


def pick(v: int, n: int) -> int:
    """map a symbolic int onto 0..n-1 by a cascade of equality tests (forks one path per value, no precondition)"""
    for k in range(n - 1):
        if v == k:
            return k
    return n - 1


def _side(rec: dict) -> None:
    p = os.environ.get("VERIF_XH_SIDE")
    if not p:
        return
    with NoTracing():
        with opened_auditwall():
            with open(p, "a") as f:
                f.write(json.dumps(rec) + "\n")


def known(fid: str) -> bool:
    """record that the current path hit the listed known finding `fid`; returns True so the harness can `return known(..)`"""
    _side({"k": "known", "id": fid})
    return True


def path_done() -> None:
    _side({"k": "path"})
