"""C13 harness: bounded model checking of the real execute_ws coroutine against the graphql-transport-ws automaton.

The server's frame sequence is symbolic and consumed lazily (a frame kind is drawn only when the client asks
for the next frame); the coroutine is driven without an event loop.
"""
import json
import os

from ariadne_codegen.client_generators.dependencies import async_base_client as plain_mod
from ariadne_codegen.client_generators.dependencies import async_base_client_open_telemetry as otel_mod
from ariadne_codegen.client_generators.dependencies import exceptions as X
from ariadne_codegen.client_generators.dependencies.base_model import UNSET, BaseModel
from harness._h import known, pick

NMAX = int(os.environ.get("VERIF_WS_FRAMES", "4"))

FRAMES = [
    '{"type": "connection_ack"}',
    '{"type": "next", "id": "1", "payload": {"data": {"a": 1}}}',
    '{"type": "ping"}',
    '{"type": "pong"}',
    '{"type": "complete", "id": "1"}',
    '{"type": "error", "id": "1", "payload": [{"message": "boom"}]}',
    "not json",
    '{"type": "bogus"}',
    '{"id": "1"}',
    '{"type": "next", "id": "1", "payload": {}}',
    '{"type": "next", "id": "1", "payload": {"data": {"b": 2}}}',
    '{"type": "next", "id": "1", "payload": {"data": {}}}',
]
NK = len(FRAMES)
K_ACK, K_NEXT, K_PING, K_PONG, K_COMPLETE, K_ERROR, K_NONJSON, K_BOGUS, K_NOTYPE, K_NODATA, K_NEXT2, K_EMPTYDATA = range(NK)
# further malformed frames, explored as the frame right after the ack only (the handler does not depend on the position)
FRAMES_EXT = FRAMES + ['[1]', '"text"', '{"type": 5}', '{"type": "next", "id": "1", "payload": null}', '{"type": null}', '{"type": ["next"]}', '{"type": {}}']
NK_EXT = len(FRAMES_EXT)
K_ARRAY, K_STRING, K_TYPENUM, K_NULLPAYLOAD, K_TYPENULL, K_TYPELIST, K_TYPEOBJ = range(NK, NK_EXT)


class Inp(BaseModel):
    x: int = 1
    y: int = 5


class LazyFrames:
    """frame kinds are symbolic ints, realised one at a time when the client reads"""

    def __init__(self, ks, n):
        self.ks, self.n, self.i = ks, n, 0
        self.drawn = []

    def more(self):
        return True if self.i < self.n else False

    def pop(self):
        if self.i == 1 and type(self.ks[1]) is int and self.ks[1] >= NK:
            k = self.ks[1]  # the concrete second frame of a partition: one of the extended kinds
        else:
            k = pick(self.ks[self.i], NK)
        self.i += 1
        self.drawn.append(k)
        return FRAMES_EXT[k]


class FakeWS:
    def __init__(self, frames):
        self.frames, self.sent, self.closed = frames, [], False

    async def send(self, m):
        self.sent.append(json.loads(m))

    async def recv(self):
        if not self.frames.more():
            raise RuntimeError("eof")
        return self.frames.pop()

    async def close(self):
        self.closed = True

    def __aiter__(self):
        return self

    async def __anext__(self):
        if self.closed or not self.frames.more():
            raise StopAsyncIteration
        return self.frames.pop()


class FakeConnect:
    def __init__(self, ws, rec):
        self.ws, self.rec = ws, rec

    def __call__(self, url, **kw):
        self.rec.append((url, kw))
        return self

    async def __aenter__(self):
        return self.ws

    async def __aexit__(self, *a):
        return False


class FakeSpan:
    def set_attribute(self, *a, **k):
        pass

    def __enter__(self):
        return self

    def __exit__(self, *a):
        return False


class FakeTracer:
    def start_as_current_span(self, *a, **k):
        return FakeSpan()


def drive(agen):
    out = []
    while True:
        co = agen.__anext__()
        try:
            co.send(None)
            return out, "SUSPENDED"
        except StopIteration as s:
            out.append(s.value)
        except StopAsyncIteration:
            return out, None
        except X.GraphQLClientError as e:
            return out, type(e).__name__
        except RuntimeError as e:
            return out, "eof" if str(e) == "eof" else "RuntimeError"
        except Exception as e:  # anything else escaping is a violation
            return out, "OTHER:" + type(e).__name__


def spec(kinds, init_payload, variables_json):
    """reference automaton written from the protocol text / property statement -> (sent, yielded, error)"""
    init = {"type": "connection_init"}
    if init_payload:
        init["payload"] = {"token": "t"}
    sent = [init]
    out = []
    if not kinds:
        return sent, out, "eof"
    if kinds[0] != K_ACK:
        return sent, out, "GraphQLClientInvalidMessageFormat"
    sub = {"type": "subscribe", "payload": {"query": "subscription S { a }", "operationName": "S"}}
    if variables_json is not None:
        sub["payload"]["variables"] = variables_json
    sent.append(sub)
    for k in kinds[1:]:
        if k == K_NEXT:
            out.append({"a": 1})
        elif k == K_NEXT2:
            out.append({"b": 2})
        elif k == K_EMPTYDATA:
            out.append({})
        elif k == K_PING:
            sent.append({"type": "pong"})
        elif k == K_COMPLETE:
            return sent, out, None
        elif k == K_ERROR:
            return sent, out, "GraphQLClientGraphQLMultiError"
        elif k in (K_NONJSON, K_BOGUS, K_NOTYPE, K_NODATA, K_ARRAY, K_STRING, K_TYPENUM, K_NULLPAYLOAD, K_TYPENULL, K_TYPELIST, K_TYPEOBJ):
            # not JSON / JSON that is not a message object / unknown, missing or non-string type / next without data
            return sent, out, "GraphQLClientInvalidMessageFormat"
        # ack / pong after the handshake: ignored
    return sent, out, None


VARS = [
    (None, None),
    ({"v": 1}, {"v": 1}),
    ({"v": UNSET, "w": 2}, {"w": 2}),
    ({"i": Inp(x=3), "l": [Inp(x=4), 1]}, {"i": {"x": 3}, "l": [{"x": 4}, 1]}),
]


def run(mod, cls, ks, n, init_payload, var_kind, tracer):
    ws = FakeWS(LazyFrames(ks, n))
    rec = []
    old = mod.ws_connect
    mod.ws_connect = FakeConnect(ws, rec)
    try:
        c = cls.__new__(cls)
        c.ws_url = "ws://x"
        c.ws_headers = {"h": "1"}
        c.ws_origin = "orig"
        c.ws_connection_init_payload = {"token": "t"} if init_payload else None
        c.tracer = FakeTracer() if tracer else None
        c.ws_root_span_name = "s"
        c.ws_root_context = None
        variables, vjson = VARS[var_kind]
        out, err = drive(c.execute_ws("subscription S { a }", "S", variables, extra_headers={"e": "2"}))
    finally:
        mod.ws_connect = old
    kinds = ws.frames.drawn
    s_sent, s_out, s_err = spec(kinds, init_payload, vjson)
    sent = []
    ids_ok = True
    for m in ws.sent:
        if m.get("type") == "subscribe":
            ids_ok = ids_ok and isinstance(m.get("id"), str) and len(m["id"]) > 0
            m = {k: v for k, v in m.items() if k != "id"}
        sent.append(m)
    conn_ok = len(rec) == 1 and rec[0][0] == "ws://x" and [str(p) for p in rec[0][1].get("subprotocols", [])] == ["graphql-transport-ws"] \
        and rec[0][1].get("extra_headers") == {"h": "1", "e": "2"} and rec[0][1].get("origin") == "orig"
    ok = sent == s_sent and out == s_out and err == s_err and ids_ok and conn_ok
    if not ok and K_EMPTYDATA in kinds:
        # falsy data of a `next` frame is dropped by `if data:`; is it the only deviation?
        s2 = [x for x in s_out if x != {}]
        if sent == s_sent and out == s2 and err == s_err and ids_ok and conn_ok:
            return known("C13-empty-data-not-yielded")
    return ok


def _ks(k0, k1, k2, k3, k4, k5):
    return [k0, k1, k2, k3, k4, k5]


VARIANTS = {
    "plain": (plain_mod, plain_mod.AsyncBaseClient, False),
    "otel_notracer": (otel_mod, otel_mod.AsyncBaseClientOpenTelemetry, False),
    "otel_tracer": (otel_mod, otel_mod.AsyncBaseClientOpenTelemetry, True),
}


def frames_check(variant: str, second: int, k0, k2, k3, k4, k5, n) -> bool:
    mod, cls, tracer = VARIANTS[variant]
    return run(mod, cls, _ks(k0, second, k2, k3, k4, k5), n, False, 0, tracer)


def vars_check(variant: str, init_payload, var_kind) -> bool:
    mod, cls, tracer = VARIANTS[variant]
    return run(mod, cls, [K_ACK, K_NEXT, K_PING, K_COMPLETE], 4, True if init_payload else False, pick(var_kind, 4), tracer)


def parts_source() -> str:
    """explicit harness functions (CrossHair needs real source): one per variant x kind of the second frame"""
    out = ["from harness.C13_ws import NMAX, frames_check, vars_check", ""]  # partitions: one per variant x kind of the second frame (extended kinds included)
    for v in VARIANTS:
        for j in range(NK_EXT):
            out.append(f"def check_frames_{v}_p{j}(k0: int, k2: int, k3: int, k4: int, k5: int, n: int) -> bool:\n"
                       f"    \"\"\"\n    pre: 0 <= n <= NMAX\n    post: _\n    \"\"\"\n"
                       f"    return frames_check({v!r}, {j}, k0, k2, k3, k4, k5, n)\n")
        out.append(f"def check_vars_{v}(init_payload: bool, var_kind: int) -> bool:\n"
                   f"    \"\"\"\n    post: _\n    \"\"\"\n"
                   f"    return vars_check({v!r}, init_payload, var_kind)\n")
    return "\n".join(out)


def check_ws_history(variant: int, first_extra: bool, second_extra: bool, frames2: int) -> bool:
    """
    post: _
    """
    # two subscriptions on ONE client: what the first call passed (extra headers) must not leak into the second connection
    import importlib
    import sys

    v = list(VARIANTS)[pick(variant, len(VARIANTS))]
    mod, cls, tracer = VARIANTS[v]
    from harness._h import NoTracing

    with NoTracing():
        mod = importlib.reload(sys.modules[cls.__module__])  # pristine module/class state per explored path
        cls = getattr(mod, cls.__name__)
    rec = []
    c = cls.__new__(cls)
    c.ws_url, c.ws_headers, c.ws_origin, c.ws_connection_init_payload = "ws://x", {"h": "1"}, None, None
    c.tracer = FakeTracer() if tracer else None
    c.ws_root_span_name, c.ws_root_context = "s", None
    old = mod.ws_connect
    try:
        for i, extra in enumerate((first_extra, second_extra)):
            ws = FakeWS(LazyFrames([K_ACK, K_NEXT, K_COMPLETE] if i == 0 or pick(frames2, 2) == 0 else [K_ACK, K_COMPLETE], 3 if i == 0 or pick(frames2, 2) == 0 else 2))
            mod.ws_connect = FakeConnect(ws, rec)
            kwargs = {"extra_headers": {"e": str(i)}} if extra else {}
            out, err = drive(c.execute_ws("subscription S { a }", "S", None, **kwargs))
            if err is not None:
                return False
    finally:
        mod.ws_connect = old
    if len(rec) != 2:
        return False
    want = [dict({"h": "1"}, **({"e": "0"} if first_extra else {})), dict({"h": "1"}, **({"e": "1"} if second_extra else {}))]
    got = [r[1].get("extra_headers") for r in rec]
    return got == want and c.ws_headers == {"h": "1"}


def check_ws_constructed_client(variant: int, http_headers: bool, ws_headers: bool, origin: bool, payload: bool) -> bool:
    """
    post: _
    """
    # a client built by its real constructor: the socket is opened with the configured ws_headers / ws_origin only (the headers of the
    # HTTP side are not websocket handshake headers), and connection_init carries the configured payload
    v = list(VARIANTS)[pick(variant, len(VARIANTS))]
    mod, cls, tracer = VARIANTS[v]
    hh, wh, og, pl = (True if http_headers else False), (True if ws_headers else False), (True if origin else False), (True if payload else False)
    from harness._h import NoTracing

    with NoTracing():
        kw = {"url": "http://x/graphql", "ws_url": "ws://x"}
        if hh:
            kw["headers"] = {"Authorization": "http-token"}
        if wh:
            kw["ws_headers"] = {"W": "1"}
        if og:
            kw["ws_origin"] = "https://origin.example"
        if pl:
            kw["ws_connection_init_payload"] = {"token": "t"}
        if tracer:
            kw["tracer"] = FakeTracer()
        try:
            c = cls(**kw)
        except TypeError:
            return False
        rec = []
        ws = FakeWS(LazyFrames([K_ACK, K_NEXT, K_COMPLETE], 3))
        old = mod.ws_connect
        mod.ws_connect = FakeConnect(ws, rec)
        try:
            out, err = drive(c.execute_ws("subscription S { a }", "S", None))
        finally:
            mod.ws_connect = old
        if err is not None or out != [{"a": 1}] or len(rec) != 1:
            return False
        kwargs = rec[0][1]
        init = ws.sent[0] if ws.sent else {}
        return (kwargs.get("extra_headers") == ({"W": "1"} if wh else {}) and kwargs.get("origin") == ("https://origin.example" if og else None)
                and init == ({"type": "connection_init", "payload": {"token": "t"}} if pl else {"type": "connection_init"}))


def twin_two_yields_then_error(k0: int, k1: int, k2: int, k3: int, k4: int, k5: int, n: int, init_payload: bool, var_kind: int) -> bool:
    """
    pre: 0 <= n <= NMAX
    post: _
    """
    ws = FakeWS(LazyFrames(_ks(k0, k1, k2, k3, k4, k5), n))
    rec = []
    old = plain_mod.ws_connect
    plain_mod.ws_connect = FakeConnect(ws, rec)
    try:
        c = plain_mod.AsyncBaseClient.__new__(plain_mod.AsyncBaseClient)
        c.ws_url, c.ws_headers, c.ws_origin, c.ws_connection_init_payload = "ws://x", {}, None, None
        out, err = drive(c.execute_ws("subscription S { a }", "S", None))
    finally:
        plain_mod.ws_connect = old
    return not (len(out) == 2 and err == "GraphQLClientGraphQLMultiError")
