"""C11 harness: the four real base clients post well-formed requests; uploads follow the multipart request spec.

The variables tree is built from symbolic ints; the oracle is an independent implementation of
"drop top-level UNSET, dump models by alias/exclude_unset, null every Upload and list its paths".
"""
import enum
import io
import json
import os

from ariadne_codegen.client_generators.dependencies import async_base_client as m_async
from ariadne_codegen.client_generators.dependencies import async_base_client_open_telemetry as m_async_ot
from ariadne_codegen.client_generators.dependencies import base_client as m_sync
from ariadne_codegen.client_generators.dependencies import base_client_open_telemetry as m_sync_ot
from ariadne_codegen.client_generators.dependencies.base_model import UNSET, BaseModel, Upload
from harness._h import NoTracing, known, pick
from pydantic import Field

DEEP = os.environ.get("VERIF_C11_DEEP", "0") == "1"


class Color(str, enum.Enum):
    RED = "RED"


class Inner(BaseModel):
    file_: object = Field(alias="file", default=None)
    n: int = 0


class Inp(BaseModel):
    camel_case: int = Field(alias="camelCase", default=1)
    opt: object = None
    inner: object = None


UP_A = Upload(filename="a.txt", content=io.BytesIO(b"a"), content_type="text/plain")
UP_B = Upload(filename="b.bin", content=io.BytesIO(b"b"), content_type="application/octet-stream")

LEAF_N = 10
MODEL_IN_DICT = []  # set by value() when a generated model sits directly inside a plain dict


def leaf(k: int):
    """-> (python value, expected JSON value, uploads in order [(upload, relative path)])"""
    if k == 0:
        return 1, 1, []
    if k == 1:
        return None, None, []
    if k == 2:
        return UP_A, None, [(UP_A, "")]
    if k == 3:
        return UP_B, None, [(UP_B, "")]
    if k == 4:
        return Color.RED, "RED", []
    if k == 5:
        return Inp(camelCase=2), {"camelCase": 2}, []
    if k == 6:
        return Inp(opt=None, inner=Inner(file=UP_A)), {"opt": None, "inner": {"file": None}}, [(UP_A, ".inner.file")]
    if k == 8:
        import datetime

        return datetime.datetime(2020, 1, 2, 3, 4, 5), "2020-01-02T03:04:05", []
    if k == 9:
        return [UP_B, [UP_A, 3]], [None, [None, 3]], [(UP_B, ".0"), (UP_A, ".1.0")]
    return "s", "s", []


def value(kind, c0, c1, n):
    """kind: 0..LEAF_N-1 leaf, LEAF_N list, LEAF_N+1 dict; children are leaves"""
    k = pick(kind, LEAF_N + 2)
    if k < LEAF_N:
        return leaf(k)
    cnt = pick(n, 3)
    kids = [leaf(pick(c, LEAF_N)) for c in (c0, c1)[:cnt]]
    if k == LEAF_N:
        return ([x[0] for x in kids], [x[1] for x in kids], [(u, f".{i}{p}") for i, x in enumerate(kids) for (u, p) in x[2]])
    keys = ["k0", "k1"]
    if any(isinstance(x[0], BaseModel) for x in kids):
        MODEL_IN_DICT.append(True)
    return ({keys[i]: x[0] for i, x in enumerate(kids)}, {keys[i]: x[1] for i, x in enumerate(kids)},
            [(u, f".{keys[i]}{p}") for i, x in enumerate(kids) for (u, p) in x[2]])


class Recorder:
    def __init__(self):
        self.calls = []

    def post(self, **kw):
        self.calls.append(kw)
        return "RESP"


class AsyncRecorder(Recorder):
    async def post(self, **kw):  # type: ignore[override]
        self.calls.append(kw)
        return "RESP"


class FakeSpan:
    def set_attribute(self, *a, **k):
        pass

    def __enter__(self):
        return self

    def __exit__(self, *a):
        return False


class FakeTracer:
    def start_as_current_span(self, *a, **k):
        return FakeSpan()


for _m in (m_sync_ot, m_async_ot):
    _m.set_span_in_context = lambda *a, **k: None  # the opentelemetry API is optional; spans are stubbed

CLIENTS = [
    ("sync", m_sync.BaseClient, False, False),
    ("async", m_async.AsyncBaseClient, True, False),
    ("sync_ot", m_sync_ot.BaseClientOpenTelemetry, False, False),
    ("async_ot", m_async_ot.AsyncBaseClientOpenTelemetry, True, False),
    ("sync_ot_tracer", m_sync_ot.BaseClientOpenTelemetry, False, True),
    ("async_ot_tracer", m_async_ot.AsyncBaseClientOpenTelemetry, True, True),
]


def call_execute(ci: int, variables, kwargs, opname="Q", query="query Q { a }"):
    name, cls, is_async, tracer = CLIENTS[ci]
    c = cls.__new__(cls)
    c.url = "http://x/graphql"
    c.headers = None
    rec = AsyncRecorder() if is_async else Recorder()
    c.http_client = rec
    c.tracer = FakeTracer() if tracer else None
    c.root_span_name = "r"
    c.root_context = None
    try:
        if is_async:
            co = c.execute(query, opname, variables, **kwargs)
            try:
                co.send(None)
                return rec, ("suspended",)
            except StopIteration as s:
                return rec, ("ok", s.value)
        return rec, ("ok", c.execute(query, opname, variables, **kwargs))
    except Exception as e:
        return rec, ("exc", type(e).__name__)


def expected_request(entries, kwargs):
    """entries: list of (name, python value, json value, uploads) in insertion order (UNSET ones already marked)"""
    variables = {}
    files = []
    fmap = {}
    for name, pyv, jv, ups in entries:
        if pyv is UNSET:
            continue
        variables[name] = jv
        for u, p in ups:
            path = f"variables.{name}{p}"
            idx = next((i for i, f in enumerate(files) if f is u), None)
            if idx is None:
                files.append(u)
                fmap[str(len(files) - 1)] = [path]
            else:
                fmap[str(idx)].append(path)
    ops = {"query": "query Q { a }", "operationName": "Q", "variables": variables}
    if files:
        exp = {"url": "http://x/graphql", "data_ops": ops, "data_map": fmap,
               "files": {str(i): (u.filename, u.content, u.content_type) for i, u in enumerate(files)}}
        exp.update(kwargs)
        if "headers" in exp:
            exp["headers"] = _ci_headers(exp["headers"])
        return "multipart", exp
    headers = {"content-type": "application/json"}
    headers.update({k.lower(): v for k, v in kwargs.get("headers", {}).items()})  # the caller's headers win, whatever their case
    exp = {"url": "http://x/graphql", "content": ops}
    exp.update(kwargs)
    exp["headers"] = {k: [v] for k, v in headers.items()}
    return "json", exp


def _ci_headers(h):
    """header names are case-insensitive on the wire: {lower-cased name: sorted values}"""
    out = {}
    for k, v in (h or {}).items():
        out.setdefault(k.lower(), []).append(v)
    return {k: sorted(v) for k, v in out.items()}


def normalise(call):
    c = dict(call)
    if "headers" in c:
        c["headers"] = _ci_headers(c["headers"])
    if "content" in c:
        c["content"] = json.loads(c["content"])
        return "json", c
    d = c.pop("data")
    if set(d) != {"operations", "map"}:
        return "bad-data-keys", c
    c["data_ops"] = json.loads(d["operations"])
    c["data_map"] = json.loads(d["map"])
    return "multipart", c


KW = [{}, {"headers": {"X": "1"}}, {"headers": {"Content-Type": "text/x", "A": "b"}, "timeout": 3}, {"timeout": 5}, {"headers": {"content-type": "application/custom+json"}},
      {"timeout": None, "auth": None}]  # explicit None is a value (no timeout, no auth), not "not given"
KW_LOWER_CT = 4


def _check(ci, a_kind, a0, a1, an, b_sel, kw_sel):
    # realise the choices (CrossHair forks here), then run the real client natively on the concrete tree
    ak = pick(a_kind, LEAF_N + 2)
    cnt = pick(an, 3) if ak >= LEAF_N else 0
    c0 = pick(a0, LEAF_N) if cnt >= 1 else 0
    c1 = pick(a1, LEAF_N) if cnt >= 2 else 0
    bs = pick(b_sel, 6)
    kw = pick(kw_sel, len(KW))
    with NoTracing():
        ok, model_in_dict = _concrete(ci, ak, c0, c1, cnt, bs, kw)
    if not ok and kw == KW_LOWER_CT and not model_in_dict:
        with NoTracing():
            only_header = _concrete(ci, ak, c0, c1, cnt, bs, 0)[0]
        if only_header:
            # the same request without the lower-case header is right: the defect is the case-sensitive merge of the default header
            return known("C11-header-merge-case-sensitive")
    if not ok and model_in_dict:
        # _convert_value does not descend into dicts: the model is dumped by json.dumps' default (unset fields
        # included) or, when it holds an Upload, cannot be serialised at all
        return known("C11-model-inside-dict")
    return ok


def _concrete(ci, ak, c0, c1, cnt, bs, kw):
    del MODEL_IN_DICT[:]
    a = value(ak, c0, c1, cnt)
    entries = [("a", a[0], a[1], a[2])]
    if bs == 1:
        entries.append(("b", UP_A, None, [(UP_A, "")]))
    elif bs == 2:
        entries.append(("b", UNSET, None, []))
    elif bs == 3:
        entries.append(("b", [UP_B, UP_A], [None, None], [(UP_B, ".0"), (UP_A, ".1")]))
    elif bs == 4:
        entries.append(("b", 2, 2, []))
    elif bs == 5:
        entries.insert(0, ("z", UNSET, None, []))
    kwargs = KW[kw]
    variables = {n: pv for n, pv, _, _ in entries}
    rec, out = call_execute(ci, variables, dict(kwargs))
    ok = out == ("ok", "RESP") and len(rec.calls) == 1
    if ok:
        kind, got = normalise(rec.calls[0])
        ekind, exp = expected_request(entries, kwargs)
        ok = kind == ekind and got == exp
    if ok:
        # the same variables object handed to a second call (a retry, or a concurrent call sharing it) describes the same
        # request: a client that edits the caller's tree while separating files sends something else the second time
        rec2, out2 = call_execute(ci, variables, dict(kwargs))
        ok = out2 == ("ok", "RESP") and len(rec2.calls) == 1
        if ok:
            kind2, got2 = normalise(rec2.calls[0])
            ok = kind2 == ekind and got2 == exp
    return ok, bool(MODEL_IN_DICT)


def check_empty_variables(ci: int, which: int) -> bool:
    """
    pre: 0 <= ci < 6
    post: _
    """
    variables = [None, {}, {"a": UNSET}][pick(which, 3)]
    rec, out = call_execute(pick(ci, 6), variables, {})
    if out != ("ok", "RESP") or len(rec.calls) != 1:
        return False
    kind, got = normalise(rec.calls[0])
    return kind == "json" and got == {"url": "http://x/graphql", "content": {"query": "query Q { a }", "operationName": "Q", "variables": {}},
                                      "headers": {"content-type": ["application/json"]}}


def check_anonymous_operation(ci: int, which: int) -> bool:
    """
    pre: 0 <= ci < 6
    post: _
    """
    # execute() without an operation name (an anonymous operation): operationName travels as null, JSON and multipart alike
    variables = [None, {"a": 1}, {"f": UP_A}][pick(which, 3)]
    rec, out = call_execute(pick(ci, 6), variables, {}, None, "{ a }")
    if out != ("ok", "RESP") or len(rec.calls) != 1:
        return False
    kind, got = normalise(rec.calls[0])
    body = got.get("content") if kind == "json" else got.get("data_ops")
    want_vars = {} if variables is None else ({"a": 1} if "a" in variables else {"f": None})
    return isinstance(body, dict) and body == {"query": "{ a }", "operationName": None, "variables": want_vars} and (kind == "multipart") == (variables is not None and "f" in variables)


def _two_calls(ci, k1, k2, same_instance, upload_first):
    """history: a second call must not be influenced by the kwargs / variables of an earlier call (same or other instance)"""
    import importlib
    import sys

    name, cls, is_async, tracer = CLIENTS[ci]
    # every explored path starts from a freshly loaded client module, so that state a call leaves behind at module or class
    # level is visible as a history effect *of this path* (and the counterexample replays in a fresh interpreter)
    mod = importlib.reload(sys.modules[cls.__module__])
    if hasattr(mod, "set_span_in_context"):
        mod.set_span_in_context = lambda *a, **k: None
    cls = getattr(mod, cls.__name__)

    def mk():
        c = cls.__new__(cls)
        c.url, c.headers = "http://x/graphql", None
        c.http_client = AsyncRecorder() if is_async else Recorder()
        c.tracer = FakeTracer() if tracer else None
        c.root_span_name, c.root_context = "r", None
        return c

    def run(c, variables, kwargs):
        if is_async:
            co = c.execute("query Q { a }", "Q", variables, **kwargs)
            try:
                co.send(None)
            except StopIteration:
                pass
        else:
            c.execute("query Q { a }", "Q", variables, **kwargs)

    c1 = mk()
    run(c1, {"a": UP_A} if upload_first else {"a": 1}, dict(KW[k1]))
    c2 = c1 if same_instance else mk()
    n_before = len(c2.http_client.calls)
    run(c2, {"a": 2}, dict(KW[k2]))
    calls = c2.http_client.calls[n_before:]
    if len(calls) != 1:
        return False
    kind, got = normalise(calls[0])
    ekind, exp = expected_request([("a", 2, 2, [])], KW[k2])
    return kind == ekind and got == exp


def check_call_history(ci: int, k1: int, k2: int, same_instance: bool, upload_first: bool) -> bool:
    """
    post: _
    """
    # the lower-case header variant (a listed defect of every single call) is not part of the history exploration
    c, a, b = pick(ci, len(CLIENTS)), pick(k1, KW_LOWER_CT), pick(k2, KW_LOWER_CT)
    si, uf = (True if same_instance else False), (True if upload_first else False)
    with NoTracing():
        try:
            return _two_calls(c, a, b, si, uf)
        except Exception:
            return False


def parts_source() -> str:
    out = ["from harness.C11_requests import _check", ""]
    for ci, (name, _c, _a, _t) in enumerate(CLIENTS):
        out.append(f"def check_{name}(a_kind: int, a0: int, a1: int, an: int, b_sel: int) -> bool:\n"
                   f"    \"\"\"\n    post: _\n    \"\"\"\n    return _check({ci}, a_kind, a0, a1, an, b_sel, 0)\n")
        out.append(f"def check_kwargs_{name}(a_kind: int, kw_sel: int) -> bool:\n"
                   f"    \"\"\"\n    post: _\n    \"\"\"\n    return _check({ci}, 2 if a_kind == 0 else (0 if a_kind == 1 else {LEAF_N}), 3, 0, 1, 0, kw_sel)\n")
    return "\n".join(out)


def twin_shared_upload_reached(a_kind: int, a0: int, a1: int, an: int, b_sel: int, kw_sel: int) -> bool:
    """
    post: _
    """
    a = value(a_kind, a0, a1, an)
    bs = pick(b_sel, 6)
    n_a = len([1 for u, _ in a[2] if u is UP_A])
    return not (bs == 3 and n_a == 2)


# ---- interleaving of two concurrent calls on one async client --------------------------------------
class Suspend:
    def __await__(self):
        yield "suspended"
        return "RESP"


class SuspendingRecorder:
    def __init__(self):
        self.calls = []

    def post(self, **kw):
        self.calls.append(kw)
        return Suspend()


def check_interleaving(ci: int, a_kind: int, a0: int, a1: int, an: int, order: int) -> bool:
    """
    post: _
    """
    cidx = pick(ci, 3)
    ak = pick(a_kind, LEAF_N + 2)
    cnt = pick(an, 3) if ak >= LEAF_N else 0
    c0 = pick(a0, LEAF_N) if cnt >= 1 else 0
    c1 = pick(a1, LEAF_N) if cnt >= 2 else 0
    o = pick(order, 4)
    with NoTracing():
        r = _interleave(cidx, ak, c0, c1, cnt, o)
    if r == "known":
        return known("C11-model-inside-dict")
    return r


def _interleave(ci, a_kind, a0, a1, an, order):
    del MODEL_IN_DICT[:]
    idx = [1, 3, 5][pick(ci, 3)]
    name, cls, _is_async, tracer = CLIENTS[idx]
    c = cls.__new__(cls)
    c.url, c.headers = "http://x/graphql", None
    rec = SuspendingRecorder()
    c.http_client = rec
    c.tracer = FakeTracer() if tracer else None
    c.root_span_name, c.root_context = "r", None
    a = value(a_kind, a0, a1, an)
    b = leaf(2)
    co1 = c.execute("query Q { a }", "Q", {"a": a[0]})
    co2 = c.execute("query Q { a }", "Q", {"a": b[0], "x": 1})
    o = pick(order, 4)
    results = {}

    def step(co, tag):
        try:
            co.send(None)
            return False
        except StopIteration as s:
            results[tag] = s.value
            return True

    seq = [[(co1, 1), (co2, 2), (co1, 1), (co2, 2)], [(co1, 1), (co2, 2), (co2, 2), (co1, 1)],
           [(co2, 2), (co1, 1), (co1, 1), (co2, 2)], [(co1, 1), (co1, 1), (co2, 2), (co2, 2)]][o]
    try:
        for co, tag in seq:
            step(co, tag)
    except Exception:
        return "known" if MODEL_IN_DICT else False
    if results != {1: "RESP", 2: "RESP"} or len(rec.calls) != 2:
        return False
    exp1 = expected_request([("a", a[0], a[1], a[2])], {})
    exp2 = expected_request([("a", b[0], b[1], b[2]), ("x", 1, 1, [])], {})
    got = [normalise(x) for x in rec.calls]
    first_is_1 = seq[0][1] == 1
    want = [exp1, exp2] if first_is_1 else [exp2, exp1]
    if got != want and MODEL_IN_DICT:
        return "known"
    return got == want
