"""C10 harness: generation does not depend on set iteration order / file listing order / previous target contents.

Every set construction inside ariadne_codegen (generators, contrib plugins, schema.py) is replaced at import time by
PermSet, whose iteration order is sorted by an oracle rank.  (1) kernel level: FragmentsGenerator.generate with a
symbolic DAG and *symbolic ranks* (CrossHair forks on every rank comparison).  (2) whole pipeline: the rank
assignment is a symbolic permutation of 4 buckets x 4 bucketings, realised first, then the real pipeline runs natively.
"""
import ast
import hashlib
import itertools
import os
import shutil
import tempfile

from harness._h import NoTracing, opened_auditwall, pick
from vlib import permset

permset.install()

from ariadne_codegen.client_generators import fragments as fm  # noqa: E402
from ariadne_codegen.client_generators.fragments import FragmentsGenerator  # noqa: E402
from graphql import build_ast_schema, parse  # noqa: E402

assert fm.set is permset.PermSet

SDL1 = "type Query { me: User! } type User { id: ID! name: String age: Int email: String }"
SCHEMA1 = build_ast_schema(parse(SDL1), assume_valid=True)
NAMES = ["Aaa", "Bbb", "Ccc", "Ddd"]
FIELDS = ["id", "name", "age", "email"]


def make(edges):
    frs = []
    for i, n in enumerate(NAMES):
        spreads = " ".join("..." + NAMES[j] for j in range(len(NAMES)) if edges[i][j])
        frs.append(f"fragment {n} on User {{ {FIELDS[i]} {spreads} }}")
    doc = parse("\n".join(frs))
    return {d.name.value: d for d in doc.definitions}


def gen_fragments(defs):
    g = FragmentsGenerator(schema=SCHEMA1, fragments_definitions=defs)
    return ast.unparse(g.generate())


def _fragments_order(e01, e02, e03, e12, e13, e23, r0, r1, r2, r3) -> bool:
    # no contract on purpose: CrossHair enforces contracts of called functions and drops the caller's path on failure
    edges = [[False] * 4 for _ in range(4)]
    edges[0][1] = True if e01 else False
    edges[0][2] = True if e02 else False
    edges[0][3] = True if e03 else False
    edges[1][2] = True if e12 else False
    edges[1][3] = True if e13 else False
    edges[2][3] = True if e23 else False
    with NoTracing():
        defs = make(edges)
        permset.ORACLE.ranks = {}
        ref = gen_fragments(defs)
    permset.ORACLE.ranks = dict(zip(NAMES, [r0, r1, r2, r3]))
    try:
        got = gen_fragments(defs)
    finally:
        permset.ORACLE.ranks = {}
    return got == ref


def twin_fragments_order(e01: bool, e02: bool, e03: bool, e12: bool, e13: bool, e23: bool, r0: int, r1: int, r2: int, r3: int) -> bool:
    """
    post: _
    """
    # reachability: a DAG where Aaa depends on two fragments AND the oracle really reverses their order
    return not (e01 and e02 and r1 > r2)


# ---------------------------------------------------------------------------------------------------------
SDL2 = '''
type Query { tagged: Tag lowerTagged: tag node(id: ID!): Node things: [Thing!]! user(f: Filter, c: Color, d: Date): User! search(kind: Kind): [Thing] }
type Mutation { save(input: SaveInput!): User! }
interface Node { id: ID! }
interface Named implements Node { id: ID! name: String }
type User implements Node & Named { id: ID! name: String color: Color kind: Kind born: Date friends: [User!] }
type Bot implements Node { id: ID! model: String! kind: Kind built: Stamp }
type Dog implements Node { id: ID! barks: Boolean! }
type Cat implements Node { id: ID! lives: Int }
type Tag { id: ID! label: String }
type tag { id: ID! weight: Int }
union Thing = User | Bot | Dog | Cat
enum Color { RED GREEN BLUE }
enum Kind { A B C }
enum Unused { X Y }
scalar Date
scalar Blob
scalar Stamp
input Filter { a: Int = 1, color: Color, nested: Filter2 }
input Filter2 { kind: Kind, when: Date, at: Stamp }
input SaveInput { name: String!, filter: Filter }
'''
Q2 = '''
query GetNode($id: ID!) { node(id: $id) { id ...UserF ... on Bot { model kind built } ... on Dog { barks } } }
query Things { things { __typename ... on User { ...UserF ...UserG ...Userg } ... on Cat { lives } ... on Bot { ...BotF } } }
query GetUser($f: Filter, $c: Color, $d: Date) { user(f: $f, c: $c, d: $d) { ...All } }
query NodeAbs($id: ID!) { node(id: $id) { id ... on Named { name } ... on Dog { barks } } }
query Search($kind: Kind) { search(kind: $kind) { ... on User { name } ... on Dog { barks } } }
mutation Save($input: SaveInput!) { save(input: $input) @mixin(from: ".mx", import: "MixA") @mixin(from: ".mx", import: "MixB") @mixin(from: ".mx", import: "MixA") { id born } }
fragment UserF on User { id name }
fragment UserG on User { color kind }
fragment BotF on Bot { model }
fragment Userg on User { born }
fragment All on User { ...UserF ...UserG ...Deep born }
fragment Deep on User { friends { ...UserF ...UserG ...Userg } }
'''
PLUGINS = ["ariadne_codegen.contrib.shorter_results.ShorterResultsPlugin", "ariadne_codegen.contrib.extract_operations.ExtractOperationsPlugin",
           "ariadne_codegen.contrib.client_forward_refs.ClientForwardRefsPlugin"]
NB = int(os.environ.get("VERIF_C10_BUCKETS", "3"))
PERMS = list(itertools.permutations(range(NB)))


def bucket(e, salt: int) -> int:
    return hashlib.sha1((str(salt) + repr(e)).encode()).digest()[0] % NB


class BucketOracle:
    def __init__(self, perm, salt):
        self.perm, self.salt = perm, salt

    def rank(self, e):
        return self.perm[bucket(e, self.salt)]


class _Ident:
    def rank(self, e):
        return 0


def run_pipeline(strategy: str, oracle, split_files: bool, preexisting: int, plugins: bool, reverse_glob: bool, pre_files=None):
    """real main.client / main.graphql_schema, in process, on a scratch dir; returns {file: text}"""
    import pathlib

    from ariadne_codegen import main as _main

    # the child process is started INSIDE the project directory (as the CLI is): isort fixes its source paths when it is imported
    given = os.environ.get("VERIF_C10_BASE")
    base = given or tempfile.mkdtemp(prefix="vh10_", dir="/tmp")
    old_oracle, old_cwd = permset.ORACLE, os.getcwd()
    old_glob = pathlib.Path.glob
    try:
        os.chdir(base)
        if split_files:
            # three directories holding files of the SAME names (p0..p2.graphql): an order that looks at base names only, or
            # at the listing order of the directory tree, is visible
            for d in ("schema/sub", "schema/other/deep", "schema"):
                os.makedirs(os.path.join(base, d), exist_ok=True)
            parts = [p for p in SDL2.strip().split("\n") if p.strip()]
            for i, part in enumerate(parts):
                d = ("schema/sub", "schema/other/deep", "schema")[i % 3]
                with open(os.path.join(base, d, f"p{(i * 7) % 23 % 3}.graphql"), "a") as f:
                    f.write(part + "\n")
            schema_path = os.path.join(base, "schema")
        else:
            schema_path = os.path.join(base, "schema.graphql")
            with open(schema_path, "w") as f:
                f.write(SDL2)
        with open(os.path.join(base, "q.graphql"), "w") as f:
            f.write(Q2)
        with open(os.path.join(base, "scal.py"), "w") as f:
            f.write("from datetime import date\ndef parse_date(v):\n    return date.fromisoformat(v)\ndef ser_date(v):\n    return v.isoformat()\n")
        if strategy in ("client", "client_custom"):
            section = {"schema_path": schema_path, "queries_path": os.path.join(base, "q.graphql"), "target_package_path": base, "target_package_name": "gcl",
                       "include_comments": "stable", "include_all_inputs": False, "include_all_enums": False,
                       "scalars": {"Date": {"type": "datetime.date", "parse": "scal.parse_date", "serialize": "scal.ser_date"},
                                   # a type that lives inside the target package itself (absolute import of the package being generated)
                                   "Stamp": {"type": "gcl.stamps.Stamp"}},
                       "plugins": PLUGINS if plugins else []}
            if strategy == "client_custom":
                section["enable_custom_operations"] = True
            target = os.path.join(base, "gcl")
        else:
            section = {"schema_path": schema_path, "target_file_path": os.path.join(base, "out_schema.py" if strategy == "schema_py" else "out_schema.graphql")}
            target = section["target_file_path"]
        cfg = {"tool": {"ariadne-codegen": section}}
        import contextlib
        import io
        import warnings

        def one_run():
            with contextlib.redirect_stdout(io.StringIO()), warnings.catch_warnings():
                warnings.simplefilter("ignore")
                if strategy in ("client", "client_custom"):
                    _main.client(cfg)
                else:
                    _main.graphql_schema(cfg)

        if preexisting:
            # the output of a previous CLI invocation on the same inputs (produced by another process) is already there
            if strategy in ("client", "client_custom"):
                os.makedirs(target, exist_ok=True)
                for fn, text in (pre_files or {}).items():
                    with open(os.path.join(target, fn), "w") as f:
                        f.write(text.replace("<BASE>", base))
                if preexisting == 2:
                    with open(os.path.join(target, "stale_module.py"), "w") as f:
                        f.write("x = 1\n")
            else:
                for fn, text in (pre_files or {}).items():
                    with open(target, "w") as f:
                        f.write(text.replace("<BASE>", base))
        permset.ORACLE = oracle
        if reverse_glob:
            pathlib.Path.glob = lambda self, pat: reversed(sorted(old_glob(self, pat)))
        one_run()
        out = {}
        if os.path.isdir(target):
            for fn in sorted(os.listdir(target)):
                if fn.endswith((".py", ".graphql")) and fn != "stale_module.py":
                    out[fn] = open(os.path.join(target, fn)).read().replace(base, "<BASE>")
        else:
            out[os.path.basename(target)] = open(target).read().replace(base, "<BASE>")
        return out
    finally:
        pathlib.Path.glob = old_glob
        permset.ORACLE = old_oracle
        os.chdir(old_cwd)
        if not given:
            shutil.rmtree(base, ignore_errors=True)


_REF = {}


def child_run(strategy, perm, salt, split, pre, plugins, rev, pre_files=None):
    """one real generation in a fresh interpreter that has the order-oracle sets installed (the generator and its
    plugins keep module-level state, so consecutive generations in one process are not independent)"""
    import json
    import subprocess
    import sys

    args = json.dumps([strategy, perm, salt, split, pre, plugins, rev, pre_files])
    env = dict(os.environ)
    env["PYTHONPATH"] = "/verif" + (":" + os.environ["VERIF_REPO"] if os.environ.get("VERIF_REPO") else "")
    base = tempfile.mkdtemp(prefix="vh10_", dir="/tmp")
    env["VERIF_C10_BASE"] = base
    # sets the order oracle cannot see (results of dict-view operations, sets built inside libraries) iterate by real string hashes:
    # every explored rank assignment also runs under its own real hash seed (the reference runs under seed 0)
    env["PYTHONHASHSEED"] = "0" if perm is None else str(1 + (int(perm) * 4 + int(salt)) % 97)
    try:
        p = subprocess.run([sys.executable, "-c", "import sys, json; from harness import C10_order as H; H.child_main(json.loads(sys.argv[1]))", args],
                           capture_output=True, text=True, env=env, timeout=300, cwd=base)
    finally:
        shutil.rmtree(base, ignore_errors=True)
    if "@@OUT@@" not in p.stdout:
        raise RuntimeError("pipeline child failed: " + (p.stderr or p.stdout)[-1500:])
    return json.loads(p.stdout.split("@@OUT@@", 1)[1])


def child_main(a):
    import json

    strategy, perm, salt, split, pre, plugins, rev, pre_files = a
    oracle = _Ident() if perm is None else BucketOracle(PERMS[perm], salt)
    out = run_pipeline(strategy, oracle, split, pre, plugins, rev, pre_files)
    print("@@OUT@@" + json.dumps(out))


def reference(strategy, plugins, split):
    key = (strategy, plugins, split)
    if key not in _REF:
        _REF[key] = child_run(strategy, None, 0, split, 0, plugins, False)
    return _REF[key]


SCENARIOS = [(False, 0, False), (True, 2, True), (False, 1, False), (True, 0, False)]


def only_import_sections(ref, got) -> bool:
    """the two generations differ only in where isort puts the absolute imports of the target package (section / blank lines)"""
    if set(ref) != set(got):
        return False
    changed = [fn for fn in ref if ref[fn] != got[fn]]
    for fn in changed:
        a = [ln for ln in ref[fn].splitlines() if ln.strip()]
        b = [ln for ln in got[fn].splitlines() if ln.strip()]
        if sorted(a) != sorted(b) or "from gcl." not in ref[fn]:
            return False
        if [ln for ln in a if not ln.startswith(("from ", "import "))] != [ln for ln in b if not ln.startswith(("from ", "import "))]:
            return False
    return bool(changed)


def _pipeline_check(strategy: str, plugins: bool, perm: int, salt: int, scen: int) -> bool:
    p = pick(perm, len(PERMS))
    sp, pr, rv = SCENARIOS[pick(scen, len(SCENARIOS))]
    with NoTracing():
        ref = reference(strategy, plugins, sp)
        got = child_run(strategy, p, salt, sp, pr, plugins, rv, ref if pr else None)
        if got == ref:
            return True
        listed = bool(pr) and only_import_sections(ref, got)
    if listed:
        from harness._h import known

        return known("C10-import-section-depends-on-existing-target")
    return False


def parts_source() -> str:
    out = ["from harness.C10_order import _pipeline_check, _fragments_order", ""]
    for a in (False, True):
        for b in (False, True):
            for c in (False, True):
                out.append(f"def check_fragorder_{int(a)}{int(b)}{int(c)}(e12: bool, e13: bool, e23: bool, r0: int, r1: int, r2: int, r3: int) -> bool:\n"
                           f"    \"\"\"\n    post: _\n    \"\"\"\n    return _fragments_order({a}, {b}, {c}, e12, e13, e23, r0, r1, r2, r3)\n")
    for name, strategy, plugins in (("client_plain", "client", False), ("client_plugins", "client", True), ("client_custom", "client_custom", False), ("schema_py", "schema_py", False),
                                   ("schema_graphql", "schema_graphql", False)):
        for salt in range(4):
            out.append(f"def check_{name}_s{salt}(perm: int, scen: int) -> bool:\n    \"\"\"\n    post: _\n    \"\"\"\n"
                       f"    return _pipeline_check({strategy!r}, {plugins}, perm, {salt}, scen)\n")
    return "\n".join(out)
