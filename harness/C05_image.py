"""C05 harness (second sentence): the declared Python type of every result field is exactly the image of its GraphQL type.
The real parse_operation_field runs (traced) on a type built from symbolic wrapper choices."""
import ast

from graphql import (
    FieldNode,
    GraphQLEnumType,
    GraphQLField,
    GraphQLInterfaceType,
    GraphQLList,
    GraphQLNonNull,
    GraphQLObjectType,
    GraphQLScalarType,
    GraphQLSchema,
    GraphQLString,
    GraphQLUnionType,
    NameNode,
    build_schema,
    parse,
)

from ariadne_codegen.client_generators.result_fields import parse_operation_field
from ariadne_codegen.client_generators.scalars import ScalarData
from harness._h import pick

SCHEMA = build_schema("""
type Query { x: Int }
enum Color { RED }
scalar Blob
scalar Date
type Leaf { a: Int }
interface Shape { area: Float }
type Circle implements Shape { area: Float r: Float }
union Either = Leaf | Circle
""")
KINDS = ["String", "Int", "Float", "Boolean", "ID", "Color", "Blob", "Date", "Leaf", "Shape", "Either"]
PY = {"String": "str", "Int": "int", "Float": "float", "Boolean": "bool", "ID": "str", "Color": "Color", "Blob": "Any", "Date": "Annotated[datetime, BeforeValidator(parse_date)]"}
SCALARS = {"Date": ScalarData(type_="datetime.datetime", parse="m.parse_date", graphql_name="Date")}
SEL = parse("{ f { a } }").definitions[0].selection_set.selections[0]
DIRS = {0: "", 1: "@skip(if: true)", 2: "@include(if: $v)"}


def image(kind: str, wrappers, conditional: bool) -> str:
    """independent image: Optional iff nullable or conditional, List iff list, enum class, nested class, Any for unconfigured scalars"""
    if kind in PY:
        core = PY[kind]
    elif kind == "Leaf":
        core = "'FX'"
    elif kind == "Shape":
        core = "'FX'"
    else:
        core = "Annotated[Union['FXLeaf', 'FXCircle'], Field(discriminator='typename__')]"
    # wrappers: innermost first; each is "nn" or "list"
    t = core
    nullable = True
    top_union = kind == "Either"
    for w in wrappers:
        if w == "nn":
            nullable = False
        else:
            t = f"List[{t if not nullable else 'Optional[' + t + ']'}]"
            nullable = True
            top_union = False
    if nullable or conditional:
        t = f"Optional[{t}]"
    return t


def norm(src: str) -> str:
    return src.replace('"', "'")


def build_type(kind: str, wrappers):
    from graphql import specified_scalar_types

    t = SCHEMA.type_map.get(kind) or specified_scalar_types[kind]
    for w in wrappers:
        t = GraphQLNonNull(t) if w == "nn" else GraphQLList(t)
    return t


def check_image(kind: int, w0: int, w1: int, w2: int, w3: int, d: int) -> bool:
    """
    post: _
    """
    k = KINDS[pick(kind, len(KINDS))]
    ws = []
    prev = None
    for w in (w0, w1, w2, w3):
        c = pick(w, 3)  # 0 stop, 1 nn, 2 list
        if c == 0:
            break
        if c == 1 and prev == "nn":
            break  # T!! is not a type
        prev = "nn" if c == 1 else "list"
        ws.append(prev)
    dd = pick(d, 3)
    typ = build_type(k, ws)
    field = parse("{ f " + DIRS[dd] + (" { a }" if k in ("Leaf", "Shape", "Either") else "") + " }").definitions[0].selection_set.selections[0]
    ann, default, ctx = parse_operation_field(schema=SCHEMA, field=field, type_=typ, directives=field.directives, class_name="FX", custom_scalars=SCALARS)
    got = norm(ast.unparse(ann))
    want = image(k, ws, dd != 0)
    # a top-level Union is written without Annotated: the discriminator goes to Field(...) of the assignment
    want_alt = want.replace("Annotated[Union['FXLeaf', 'FXCircle'], Field(discriminator='typename__')]", "Union['FXLeaf', 'FXCircle']") if (k == "Either" and "list" not in ws) else want
    ok_ann = got == want or got == want_alt
    ok_default = (default is not None and default.value is None) if dd != 0 else default is None
    return ok_ann and ok_default


def twin_nested_list_reached(kind: int, w0: int, w1: int, w2: int, w3: int, d: int) -> bool:
    """
    post: _
    """
    ws = []
    prev = None
    for w in (w0, w1, w2, w3):
        c = pick(w, 3)
        if c == 0:
            break
        if c == 1 and prev == "nn":
            break
        prev = "nn" if c == 1 else "list"
        ws.append(prev)
    return not (ws == ["nn", "list", "list", "nn"])
