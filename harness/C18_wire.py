"""C18 harness, wire names: whatever Python name a GraphQL name is given, the original stays the wire name.

One package per snake-case setting is generated from a schema whose object type, input type and one operation's variables all
carry the same stress names (keywords, pydantic attributes, underscore-led, camelCase, capitals, digits).  Per path CrossHair
chooses the role (result field / input field / variable) and the name; the emitted package (read through vlib.extract) must
expose that name: as the field's alias (or its unchanged name) for models, as the key of the variables dict for variables,
and the Python name must obey the identifier law."""
import keyword

from harness._h import NoTracing, known, opened_auditwall, pick
from vlib import gen
from vlib.extract import Package

NAMES = ["in", "from", "class", "None", "copy", "json", "dict", "schema", "model_dump", "_id", "__x", "_Rank", "camelCase", "snake_case", "Upper", "x1y", "HTTPStatus",
         "a_", "match", "validate", "fooBar2"]  # pairwise distinct after mapping: merges are the pair law's business
SDL = ("type Query { obj(" + ", ".join(f"{n}: Int" for n in NAMES) + ", inp: Inp): Obj }\n"
       "type Obj { ident: Int " + " ".join(f"{n}: Int" for n in NAMES) + " }\n"
       "input Inp { " + ", ".join(f"{n}: Int" for n in NAMES) + " }\n")
OPS = ("query Everything(" + ", ".join(f"${n}: Int" for n in NAMES) + ", $inp: Inp) { obj(" + ", ".join(f"{n}: ${n}" for n in NAMES) + ", inp: $inp) { "
       + " ".join(NAMES) + " } }\n"
       "query Aliased { obj { " + " ".join(f"{n}: ident" for n in NAMES) + " } }\n"
       "query ViaFragment { obj { ...AllF } }\nfragment AllF on Obj { " + " ".join(NAMES) + " }\n")

SETUP_ERROR = ""
PK = {}
try:
    with opened_auditwall():
        for _snake in (True, False):
            _r = gen.generate({"schema": SDL, "queries": OPS, "config": {"convert_to_snake_case": _snake}})
            if not _r["ok"]:
                raise RuntimeError(f"generation failed (snake={_snake}): {_r['exc_type']}: {_r['exc_msg']}")
            PK[_snake] = Package(_r["files"])
except Exception as _e:  # reported as failing paths
    SETUP_ERROR = f"{type(_e).__name__}: {_e}"

import ariadne_codegen.utils as _u

RESERVED = set(_u.PYDANTIC_RESERVED_FIELD_NAMES)


def wire_problem(snake: bool, role: int, ni: int) -> str:
    pkg = PK[snake]
    name = NAMES[ni]
    if role == 4:
        # the mapping is a function of the name (and the configuration), not of where the field is selected: the class generated
        # for a named fragment gives every field the Python name the operation's own class gives it
        direct, frag = pkg.resolve("everything", "EverythingObj"), pkg.resolve("fragments", "AllF")
        if direct is None or frag is None:
            return "class not found"
        a = {f.key: f.name for f in pkg.all_fields(direct).values()}
        b = {f.key: f.name for f in pkg.all_fields(frag).values()}
        if a.get(name) != b.get(name) or name not in b:
            return f"{name!r}: {a.get(name)!r} when selected directly, {b.get(name)!r} through a named fragment"
        return ""
    if role in (0, 1, 3):
        if role == 0:
            ci = pkg.resolve("everything", "EverythingObj")
        elif role == 3:
            ci = pkg.resolve("aliased", "AliasedObj")
        else:
            ci = pkg.resolve("input_types", "Inp")
        if ci is None:
            return "class not found"
        fields = pkg.all_fields(ci)
        hits = [f for f in fields.values() if f.key == name]
        if len(hits) != 1:
            return f"{len(hits)} fields of {ci.name} have the wire name {name!r}: {[(f.name, f.alias) for f in fields.values()][:30]}"
        py = hits[0].name
        if not py.isidentifier() or keyword.iskeyword(py) or py.startswith("_") or py in RESERVED:
            return f"{name!r} -> python name {py!r}"
        return ""
    mi = [m for m in pkg.client_methods() if m.operation_name == "Everything"]
    if len(mi) != 1:
        return "method not found"
    m = mi[0]
    if name not in m.variables:
        return f"variables dict has no key {name!r}: {sorted(m.variables)}"
    expr = m.variables[name]
    argnames = [a[0] for a in m.args]
    if expr not in argnames:
        return f"variable {name!r} is bound to {expr!r}, which is not a parameter of the method {argnames}"
    if not expr.isidentifier() or keyword.iskeyword(expr):
        return f"{name!r} -> parameter {expr!r}"
    return ""


def _check(snake: bool, role: int, ni: int) -> bool:
    if SETUP_ERROR:
        return False
    r, n = pick(role, 5), pick(ni, len(NAMES))
    with NoTracing():
        try:
            return not wire_problem(snake, r, n)
        except Exception:  # noqa: BLE001
            return False


# ---- operation names: the generated method must stay usable next to what the client class inherits ---------------------
OP_NAMES = ["getUser", "GetUser", "get_user", "getData", "GetData", "execute", "executeWs", "close", "class", "List", "Any", "gql", "Client", "fooBar2"]
CALL_CODE = r'''
import importlib, inspect
def main(pkg, arg):
    import httpx
    m = importlib.import_module(pkg)
    def handler(request):
        return httpx.Response(200, json={"data": {"a": 1}})
    kw = {"url": "http://x", "http_client": httpx.Client(transport=httpx.MockTransport(handler))}
    c = m.Client(**kw)
    names = [n for n, f in vars(m.Client).items() if inspect.isfunction(f) and not n.startswith("_")]
    out = {}
    for n in names:
        try:
            r = getattr(c, n)()
            out[n] = type(r).__name__ + ":" + repr(getattr(r, "a", None))
        except Exception as e:
            out[n] = "EXC " + type(e).__name__ + ": " + str(e)[:120]
    return out
'''


def operation_problem(oi: int, snake: bool) -> str:
    """one package per operation name (sync client): the package loads, has exactly one generated method, and calling it
    through a stub transport returns the validated model"""
    name = OP_NAMES[oi]
    r = gen.generate({"schema": "type Query { a: Int }", "queries": f"query {name} {{ a }}", "config": {"async_client": False, "convert_to_snake_case": snake}})
    if not r["ok"]:
        # refusing a name with an ariadne-codegen error is one of the two outcomes the property allows
        return "" if (r.get("exc_type") or "").startswith("ariadne_codegen.exceptions.") else f"generation died: {r['exc_type']}: {r['exc_msg'][:120]}"
    ev = gen.pkg_eval({"files": r["files"], "pkg": "gcl", "code": CALL_CODE, "extra": {}})
    if not ev.get("ok"):
        return f"package for operation {name!r} does not load: {ev.get('exc_type')}: {str(ev.get('exc_msg'))[:120]}"
    res = ev["result"]
    if len(res) != 1:
        return f"operation {name!r}: generated methods {sorted(res)}"
    got = next(iter(res.values()))
    if got.startswith("EXC") or not got.endswith(":1"):
        return f"operation {name!r}: calling the generated method {next(iter(res))!r} gives {got}"
    return ""


OP_PAIRS = [("getUser", "get_user"), ("GetUser", "getUser"), ("getUser", "getuser"), ("fooBar2", "foo_bar_2"), ("ABTest", "AbTest"), ("list", "List"), ("x", "X")]
PAIR_CODE = r'''
import importlib, inspect
def main(pkg, arg):
    import httpx, json
    m = importlib.import_module(pkg)
    def handler(request):
        body = json.loads(request.content)
        return httpx.Response(200, json={"data": {"a": 1, "b": 2}})
    c = m.Client(url="http://x", http_client=httpx.Client(transport=httpx.MockTransport(handler)))
    out = {}
    for n, f in vars(m.Client).items():
        if inspect.isfunction(f) and not n.startswith("_"):
            try:
                r = getattr(c, n)()
                out[n] = sorted(k for k in ("a", "b") if hasattr(r, k))
            except Exception as e:
                out[n] = "EXC " + type(e).__name__ + ": " + str(e)[:100]
    return out
'''


def operation_pair_problem(pi: int, snake: bool) -> str:
    """two operations of one client whose names may map to one Python name: either both stay usable (two methods, each returning
    its own operation's model) or generation fails with an ariadne-codegen error - never a silent merge"""
    n1, n2 = OP_PAIRS[pi]
    r = gen.generate({"schema": "type Query { a: Int b: Int }", "queries": f"query {n1} {{ a }}\nquery {n2} {{ b }}", "config": {"async_client": False, "convert_to_snake_case": snake}})
    if not r["ok"]:
        return "" if (r.get("exc_type") or "").startswith("ariadne_codegen.exceptions.") else f"generation died: {r['exc_type']}: {r['exc_msg'][:120]}"
    ev = gen.pkg_eval({"files": r["files"], "pkg": "gcl", "code": PAIR_CODE, "extra": {}})
    if not ev.get("ok"):
        return f"package for operations {n1!r}, {n2!r} does not load: {ev.get('exc_type')}: {str(ev.get('exc_msg'))[:120]}"
    res = ev["result"]
    if sorted(map(str, res.values())) != ["['a']", "['b']"]:
        return f"operations {n1!r} and {n2!r}: generated methods give {res}"
    return ""


def check_operation_pairs(pi: int, snake: bool) -> bool:
    """
    post: _
    """
    k = pick(pi, len(OP_PAIRS))
    sn = True if snake else False
    with NoTracing():
        with opened_auditwall():
            try:
                prob = operation_pair_problem(k, sn)
            except Exception as e:  # noqa: BLE001
                prob = f"harness: {type(e).__name__}: {e}"
    return not prob


SHADOWING = {"getData", "GetData", "execute", "executeWs"}


def _operation_check(oi: int, snake: bool) -> bool:
    k = pick(oi, len(OP_NAMES))
    sn = True if snake else False
    with NoTracing():
        with opened_auditwall():
            try:
                prob = operation_problem(k, sn)
            except Exception as e:  # noqa: BLE001
                prob = f"harness: {type(e).__name__}: {e}"
        if not prob:
            return True
        listed = OP_NAMES[k] in SHADOWING and ("EXC TypeError" in prob or "EXC AttributeError" in prob)
    if listed:
        return known("C18-operation-shadows-base-client-method")
    return False


def check_operation_names(oi: int, snake: bool) -> bool:
    """
    post: _
    """
    return _operation_check(oi, snake)


def check_wire_names_snake(role: int, ni: int) -> bool:
    """
    post: _
    """
    return _check(True, role, ni)


def check_wire_names_plain(role: int, ni: int) -> bool:
    """
    post: _
    """
    return _check(False, role, ni)


def twin_wire_keyword_input_reached(role: int, ni: int) -> bool:
    """
    post: _
    """
    if SETUP_ERROR:
        return True
    r, n = pick(role, 5), pick(ni, len(NAMES))
    with NoTracing():
        ok = not wire_problem(False, r, n)
    return not (ok and r == 1 and NAMES[n] == "from")
