"""C02 harness: the document sent is the document written.

(1) fragment-graph packages (shared corpus, with @mixin placements): every operation's sent text, read back by *running*
the generated client with a stub transport, is checked against the reference of vlib.docsem.
(2) string literal contents: sequences of <= N symbols from a lexically complete alphabet, placed as argument value,
variable default and directive argument, through the real pipeline (ast.unparse, black, the regex-based multi-line
formatter) - with and without the ExtractOperations plugin.
"""
import importlib
import json
import os
import shutil
import subprocess
import sys
import tempfile

from harness._h import NoTracing, known, opened_auditwall, pick
from vlib import corpus, docsem, gen

NSYM = int(os.environ.get("VERIF_C02_SYMS", "2"))
THOROUGH = os.environ.get("VERIF_C02_THOROUGH", "0") == "1"
SYMS = ["a", "'", '"', "\\", "n", "#", "=", " ", "\n", " ", "{", "$", ","]
NS = len(SYMS)
EXTRACT = "ariadne_codegen.contrib.extract_operations.ExtractOperationsPlugin"


def gql_string(content: str, block: bool) -> str:
    if block:
        return '"""' + content.replace('"""', '\\"""') + '"""'
    out = []
    for ch in content:
        if ch == '"':
            out.append('\\"')
        elif ch == "\\":
            out.append("\\\\")
        elif ch == "\n":
            out.append("\\n")
        else:
            out.append(ch)
    return '"' + "".join(out) + '"'


LIT_SDL = "directive @tag(v: String) on FIELD\ntype Query { echo(s: String, t: String): String other: Int }"


def literal_queries(lit: str, pos: int) -> str:
    if pos == 0:
        return f"query Lit {{ echo(s: {lit}) other }}"
    if pos == 1:
        return f"query Lit($v: String = {lit}) {{ echo(s: $v) other }}"
    return f"query Lit {{ echo(s: \"k\") @tag(v: {lit}) other }}"


def sent_documents(files, pkgname: str):
    """run the emitted client: every generated method is called with a stub execute that captures query / operation_name"""
    base = tempfile.mkdtemp(prefix="vh02_", dir="/tmp")
    try:
        d = os.path.join(base, pkgname)
        os.makedirs(d)
        for fn, src in files.items():
            p = os.path.join(d, fn)
            with open(p, "w") as f:
                f.write(src)
        sys.path.insert(0, base)
        try:
            mod = importlib.import_module(pkgname + ".client")
        finally:
            sys.path.remove(base)
        out = {}
        import inspect

        cls = mod.Client
        for name, fn in vars(cls).items():
            if not inspect.isfunction(fn) or name.startswith("_"):
                continue
            c = cls.__new__(cls)
            cap = {}

            def execute(**kw):
                cap.update(kw)
                raise KeyboardInterrupt  # stop the method right after the request is handed over

            c.execute = execute
            c.execute_ws = execute
            sig = inspect.signature(fn)
            args = [None for p in list(sig.parameters.values())[1:] if p.default is inspect.Parameter.empty and p.kind == p.POSITIONAL_OR_KEYWORD]
            try:
                r = fn(c, *args)
                if inspect.iscoroutine(r):
                    try:
                        r.send(None)
                    except (StopIteration, KeyboardInterrupt):
                        pass
                elif inspect.isasyncgen(r):
                    try:
                        r.__anext__().send(None)
                    except (StopIteration, StopAsyncIteration, KeyboardInterrupt):
                        pass
            except KeyboardInterrupt:
                pass
            if "query" in cap:
                out[cap.get("operation_name")] = (cap["query"], cap.get("operation_name"))
        return out
    finally:
        for k in [k for k in sys.modules if k == pkgname or k.startswith(pkgname + ".")]:
            del sys.modules[k]
        shutil.rmtree(base, ignore_errors=True)


def generate(job, plugin: bool):
    job = dict(job)
    job["config"] = dict(job.get("config") or {})
    if plugin:
        job["config"]["plugins"] = [EXTRACT]
        return gen.run_subprocess_generation(job)  # plugins keep state: fresh interpreter
    return gen.generate(job)


_COUNTER = [0]


def doc_problems(sdl, queries, plugin, extra_files=None, extra_config=None):
    _COUNTER[0] += 1
    name = f"p02_{os.getpid()}_{_COUNTER[0]}"
    cfg = {"target_package_name": name, "async_client": False}
    cfg.update(extra_config or {})
    r = generate({"schema": sdl, "queries": queries, "config": cfg, "files": extra_files or {}}, plugin)
    if not r.get("ok"):
        return [f"generation failed: {r.get('exc_type')}: {(r.get('exc_msg') or r.get('harness_exc') or '')[:160]}"], "gen_failed"
    try:
        sent = sent_documents(r["files"], name)
    except BaseException as e:  # noqa: BLE001
        return [f"client module does not load/run: {type(e).__name__}: {str(e)[:160]}"], "load_failed"
    from graphql import OperationDefinitionNode, parse

    probs = []
    for d in parse(queries).definitions:
        if isinstance(d, OperationDefinitionNode):
            op = d.name.value
            if op not in sent:
                probs.append(f"no request captured for operation {op}")
                continue
            probs += [f"{op}: {p}" for p in docsem.check_sent_document(sdl, queries, op, sent[op][0], sent[op][1])]
    return probs, "checked"


def literal_case(s0: int, s1: int, s2: int, n: int, pos: int, block: bool, plugin: bool):
    content = "".join(SYMS[k] for k in (s0, s1, s2)[:n])
    if block and '"""' in content:
        return [], "skipped"
    lit = gql_string(content, block)
    return doc_problems(LIT_SDL, literal_queries(lit, pos), plugin)


def classify_literal(content: str, block: bool, probs, status) -> str:
    text = " ".join(probs)
    if block:
        return "C02-block-string"
    if "'" in content:
        return "C02-apostrophe-in-literal"
    if "\n" in content or " " in content or "\\" in content:
        return "C02-escape-or-line-separator-in-literal"
    return ""


def _literal_check(s0, s1, s2, n, pos, block, plugin) -> bool:
    nn = pick(n, NSYM + 1)
    a = pick(s0, NS) if nn >= 1 else 0
    b = pick(s1, NS) if nn >= 2 else 0
    c = pick(s2, NS) if nn >= 3 else 0
    p = pick(pos, 3)
    bl = True if block else False
    # the plugin axis costs a fresh interpreter per path: in the quick tier it is explored for literals of <= 1 symbol only
    pl = (True if plugin else False) if (nn <= 1 or THOROUGH) else False
    with NoTracing():
        with opened_auditwall():
            probs, status = literal_case(a, b, c, nn, p, bl, pl)
        if not probs:
            return True
        kid = classify_literal("".join(SYMS[k] for k in (a, b, c)[:nn]), bl, probs, status)
    if kid:
        return known(kid)
    return False


def parts_source() -> str:
    out = ["from harness.C02_document import _literal_check, _package_check", ""]
    for first in range(NS):
        out.append(f"def check_literal_first{first}(s1: int, s2: int, n: int, pos: int, block: bool, plugin: bool) -> bool:\n    \"\"\"\n    pre: n != 0\n    post: _\n    \"\"\"\n"
                   f"    return _literal_check({first}, s1, s2, n, pos, block, plugin)\n")
    out.append("def check_literal_empty(pos: int, block: bool, plugin: bool) -> bool:\n    \"\"\"\n    post: _\n    \"\"\"\n    return _literal_check(0, 0, 0, 0, pos, block, plugin)\n")
    for part in range(4):
        out.append(f"def check_packages_p{part}(i: int, plugin: bool) -> bool:\n    \"\"\"\n    post: _\n    \"\"\"\n    return _package_check({part}, i, plugin)\n")
    return "\n".join(out)


# ---- fragment graphs / mixins -----------------------------------------------------------------------
MIXIN_PY = "class MixA:\n    def hello(self):\n        return 1\n\nclass MixB:\n    pass\n"
MIXIN_QUERIES = [
    'query M1 { user @mixin(from: ".mixins", import: "MixA") { id } }',
    'query M2 { user { ...MF } }\nfragment MF on User @mixin(from: ".mixins", import: "MixB") { id name }',
    'query M3 { node(id: "1") { id ... on User { bestFriend @mixin(from: ".mixins", import: "MixA") @mixin(from: ".mixins", import: "MixB") { name } } } }',
    'query M4 { user { ...MG } }\nfragment MG on User { pet @mixin(from: ".mixins", import: "MixA") { barks } }',
]


def package_jobs():
    jobs = []
    for j in corpus.fragment_packages(12, 5, 7, avoid=("UD", "node { ...UA }", "nodes {", "user { ...NA }", "named { ...MA ...NA }", "...UE ...MA }", "named { ...NA name }", "named { id ...NB }")):
        jobs.append((j["schema"], j["queries"], None, None))
    # a fragment on a parent interface spread directly in a field whose type is a child interface (kept apart from operations that use
    # the same fragments as base classes: that mixture is the listed defect C08-fragment-excluded)
    jobs.append((corpus.S_ABS, "query P1 { named { ...NA name } }\nquery P2 { named { id ...NB } }\n" + corpus.FRAG_POOL["NA"] + "\n" + corpus.FRAG_POOL["NB"], None, None))
    # two operations of one run sharing a three-deep chain of fragments (state carried from one operation to the next shows here)
    jobs.append((corpus.S_ABS, "query D1 { me { ...UC } }\nquery D2 { user { ...UC id } }\nquery D3 { users { ...UB } }\n" + "\n".join(corpus.FRAG_POOL[f] for f in ("UC", "UB", "UA")), None, None))
    for q in MIXIN_QUERIES:
        jobs.append((corpus.S_ABS, q, {"mixins.py": MIXIN_PY}, {"files_to_include": ["mixins.py"]}))
    jobs.append((corpus.S_ABS, "\n".join(MIXIN_QUERIES), {"mixins.py": MIXIN_PY}, {"files_to_include": ["mixins.py"]}))
    return jobs


PJOBS = package_jobs()


def _package_check(part: int, i: int, plugin: bool) -> bool:
    mine = [j for k, j in enumerate(PJOBS) if k % 4 == part]
    k = pick(i, len(mine))
    pl = True if plugin else False
    with NoTracing():
        with opened_auditwall():
            sdl, q, files, cfg = mine[k]
            probs, status = doc_problems(sdl, q, pl, files, cfg)
        return not probs


def twin_two_symbols_reached(s0: int, s1: int, n: int, pos: int) -> bool:
    """
    post: _
    """
    nn = pick(n, NSYM + 1)
    a = pick(s0, NS) if nn >= 1 else 0
    b = pick(s1, NS) if nn >= 2 else 0
    p = pick(pos, 3)
    with NoTracing():
        with opened_auditwall():
            probs, status = literal_case(a, b, 0, nn, p, False, False)
    return not (status == "checked" and not probs and nn == 2 and SYMS[a] == "#" and SYMS[b] == "=")
