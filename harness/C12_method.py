"""C12 harness, second part: the generated client method returns model_validate(exactly the data get_data returned)
and lets get_data's documented exceptions through (sync and async generated clients, real generator output)."""
import importlib
import os
import sys
import tempfile

from harness._h import opened_auditwall, pick
from harness.C12_get_data import LazyBody, StubResponse, spec
from vlib import gen

SDL = "type Query { a: Int b: [String!] c(response: Int, data: Int, query: String, variables: Int): Int }"
# the second operation declares variables named like the locals of the generated method (response, data, query, variables)
Q = "query GetIt { a }\nquery Clash($response: Int, $data: Int, $query: String, $variables: Int) { a c(response: $response, data: $data, query: $query, variables: $variables) }"
OPS = [("get_it", "GetIt"), ("clash", "Clash")]

_PK = {}
SETUP_ERROR = ""
try:
    with opened_auditwall():
        _BASE = tempfile.mkdtemp(prefix="vh12_")
        for _name, _cfg in (("sync", {"async_client": False}), ("asyn", {"async_client": True})):
            _r = gen.generate({"schema": SDL, "queries": Q, "config": dict(_cfg, target_package_name="p_" + _name)})
            if not _r["ok"]:
                raise RuntimeError(f"generation failed: {_r['exc_type']}: {_r['exc_msg']}")
            _d = os.path.join(_BASE, "p_" + _name)
            os.makedirs(_d)
            for _fn, _src in _r["files"].items():
                with open(os.path.join(_d, _fn), "w") as _f:
                    _f.write(_src)
        sys.path.insert(0, _BASE)
        for _name in ("sync", "asyn"):
            _PK[_name] = importlib.import_module("p_" + _name)
except Exception as _e:
    SETUP_ERROR = f"{type(_e).__name__}: {_e}"


def run_method(which: str, resp, op: int = 0):
    pkg = _PK[which]
    client = pkg.Client.__new__(pkg.Client)
    meth = OPS[op][0]
    if which == "sync":
        client.execute = lambda **kw: resp
        try:
            return ("ok", getattr(client, meth)())
        except Exception as e:
            return ("exc", type(e).__name__)

    async def execute(**kw):
        return resp

    client.execute = execute
    try:
        co = getattr(client, meth)()
    except Exception as e:
        return ("exc", type(e).__name__)
    try:
        co.send(None)
        return ("suspended",)
    except StopIteration as s:
        return ("ok", s.value)
    except Exception as e:
        return ("exc", type(e).__name__)


def expected(which: str, status, json_ok, body, op: int = 0):
    pkg = _PK[which]
    want = spec(status, json_ok, body)
    if want[0] == "http":
        return ("exc", "GraphQLClientHttpError")
    if want[0] == "invalid":
        return ("exc", "GraphQLClientInvalidResponseError")
    if want[0] == "multi":
        return ("exc", "GraphQLClientGraphQLMultiError")
    try:
        return ("ok", getattr(pkg, OPS[op][1]).model_validate(want[1]))
    except Exception as e:
        return ("exc", type(e).__name__)


def _check(which, status, json_ok, kind, has_data, data_kind, has_errors, n_err, e0, e1, extra, op=False):
    if SETUP_ERROR:
        return False
    body = LazyBody(kind, has_data, data_kind, has_errors, n_err, e0, e1, extra)
    jo = True if json_ok else False
    oi = 1 if op else 0
    got = run_method(which, StubResponse(status, jo, body), oi)
    want = expected(which, status, jo, body, oi)
    return got == want


def check_sync(status: int, json_ok: bool, kind: int, has_data: bool, data_kind: int, has_errors: bool, n_err: int, e0: int, e1: int, extra: bool) -> bool:
    """
    pre: 100 <= status <= 599
    post: _
    """
    return _check("sync", status, json_ok, kind, has_data, data_kind, has_errors, n_err, e0, e1, extra)


def check_async(status: int, json_ok: bool, kind: int, has_data: bool, data_kind: int, has_errors: bool, n_err: int, e0: int, e1: int, extra: bool) -> bool:
    """
    pre: 100 <= status <= 599
    post: _
    """
    return _check("asyn", status, json_ok, kind, has_data, data_kind, has_errors, n_err, e0, e1, extra)


def check_sync_clash(status: int, json_ok: bool, kind: int, has_data: bool, data_kind: int, has_errors: bool, n_err: int, e0: int, e1: int, extra: bool) -> bool:
    """
    pre: 100 <= status <= 599
    post: _
    """
    return _check("sync", status, json_ok, kind, has_data, data_kind, has_errors, n_err, e0, e1, extra, True)


def check_async_clash(status: int, json_ok: bool, kind: int, has_data: bool, data_kind: int, has_errors: bool, n_err: int, e0: int, e1: int, extra: bool) -> bool:
    """
    pre: 100 <= status <= 599
    post: _
    """
    return _check("asyn", status, json_ok, kind, has_data, data_kind, has_errors, n_err, e0, e1, extra, True)


def twin_ok_reached(status: int, json_ok: bool, kind: int, has_data: bool, data_kind: int, has_errors: bool, n_err: int, e0: int, e1: int, extra: bool) -> bool:
    """
    pre: 100 <= status <= 599
    post: _
    """
    if SETUP_ERROR:
        return True
    body = LazyBody(kind, has_data, data_kind, has_errors, n_err, e0, e1, extra)
    got = run_method("asyn", StubResponse(status, True if json_ok else False, body))
    return not (got[0] == "ok")


# ---- real transport: a client built WITHOUT an injected http client, against an HTTP server on the loopback interface -----------
def real_status_case(which: int, status: int, with_upload: bool = False):
    """-> (status, detail).  The server answers `status` (with a Location header for 3xx) on /graphql and 200 + data elsewhere;
    every non-2xx answer must surface as GraphQLClientHttpError carrying that status (the transport must not follow redirects or
    retry on its own)."""
    import asyncio
    import http.server
    import json
    import threading

    from ariadne_codegen.client_generators.dependencies import async_base_client, async_base_client_open_telemetry, base_client, base_client_open_telemetry
    from ariadne_codegen.client_generators.dependencies.exceptions import GraphQLClientHttpError

    cls = [base_client.BaseClient, async_base_client.AsyncBaseClient, base_client_open_telemetry.BaseClientOpenTelemetry,
           async_base_client_open_telemetry.AsyncBaseClientOpenTelemetry][which]
    hits = []

    class H(http.server.BaseHTTPRequestHandler):
        def do_POST(self):  # noqa: N802
            self.rfile.read(int(self.headers.get("Content-Length") or 0))
            hits.append(self.path)
            if self.path == "/graphql":
                self.send_response(status)
                if 300 <= status < 400:
                    self.send_header("Location", "/elsewhere")
                body = b'{"data": {"a": 0}}'
            else:
                self.send_response(200)
                body = b'{"data": {"a": 1}}'
            self.send_header("Content-Type", "application/json")
            self.send_header("Content-Length", str(len(body)))
            self.end_headers()
            self.wfile.write(body)

        def log_message(self, *a):
            pass

    try:
        srv = http.server.HTTPServer(("127.0.0.1", 0), H)
    except OSError as e:
        return "no_loopback", str(e)
    t = threading.Thread(target=srv.serve_forever, daemon=True)
    t.start()
    try:
        url = f"http://127.0.0.1:{srv.server_address[1]}/graphql"
        c = cls(url=url)
        variables = {}
        if with_upload:
            import io
            import sys

            up = sys.modules[cls.__module__].Upload
            variables = {"f": up(filename="a.txt", content=io.BytesIO(b"x"), content_type="text/plain")}  # the request goes multipart
        try:
            if which in (1, 3):
                async def go():
                    r = await c.execute("query Q { a }", "Q", variables)
                    return c.get_data(r)

                data = asyncio.run(go())
            else:
                data = c.get_data(c.execute("query Q { a }", "Q", variables))
            outcome = ("data", data)
        except GraphQLClientHttpError as e:
            outcome = ("http", e.status_code)
        except Exception as e:  # noqa: BLE001
            outcome = ("other", type(e).__name__)
    finally:
        srv.shutdown()
        srv.server_close()
    want = ("data", {"a": 0}) if 200 <= status <= 299 else ("http", status)
    if outcome != want or hits != ["/graphql"]:
        return "failed", f"status {status}: outcome {outcome}, requests {hits}"
    return "ok", ""


REAL_STATUSES = [200, 201, 301, 302, 307, 308, 404, 500]


def check_real_transport_status(which: int, si: int, upload: bool) -> bool:
    """
    post: _
    """
    from harness._h import NoTracing

    w, s = pick(which, 4), REAL_STATUSES[pick(si, len(REAL_STATUSES))]
    u = True if upload else False
    with NoTracing():
        with opened_auditwall():
            try:
                st, _detail = real_status_case(w, s, u)
            except Exception:  # noqa: BLE001
                st = "failed"
    return st in ("ok", "no_loopback")
