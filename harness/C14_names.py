"""C14 harness (variable naming kernel): every argument occurrence in a builder tree gets its own variable, bound to its value.
Real GraphQLField.to_ast / get_formatted_variables and the generated _build_selection_set / _combine_variables run traced on trees
whose argument names are chosen symbolically from names that can collide with the generated suffixes."""
import importlib
import sys

from graphql import VariableNode, Visitor, visit

from harness import C14_builder as B
from harness._h import NoTracing, known, pick

ARG_NAMES = ["a", "a_0", "a_0_1", "a_1", "b"]
if not B.SETUP_ERROR:
    sys.path.insert(0, B._BASES[False])
    try:
        P = importlib.import_module("p14")
        GraphQLField = importlib.import_module("p14.base_operation").GraphQLField
    finally:
        sys.path.remove(B._BASES[False])


class _Vars(Visitor):
    def __init__(self):
        super().__init__()
        self.names = []

    def enter_variable(self, node, *_):
        self.names.append(node.name.value)


def build(shape, names):
    """shape: (top0 has arg, child0 has arg, top1 exists, top1 has arg, child1 has arg); names: indexes into ARG_NAMES"""
    occ = []
    v = [100]

    def field(fname, has_arg, ni):
        args = {}
        if has_arg:
            v[0] += 1
            args = {ARG_NAMES[ni]: {"type": "Int", "value": v[0]}}
            occ.append((ARG_NAMES[ni], v[0]))
        return GraphQLField(fname, arguments=args)

    t0 = field("t0", shape[0], names[0])
    c0 = field("c0", shape[1], names[1])
    t0._subfields.append(c0)
    tops = [t0]
    if shape[2]:
        t1 = field("t1", shape[3], names[2])
        c1 = field("c1", shape[4], names[3])
        t1._subfields.append(c1)
        tops.append(t1)
    return tops, occ


def _case(shape, names):
    tops, occ = build(shape, names)
    c = P.Client.__new__(P.Client)
    sels = c._build_selection_set(tuple(tops))
    comb = c._combine_variables(tuple(tops))
    used = []
    for s in sels:
        vis = _Vars()
        visit(s, vis)
        used.extend(vis.names)
    values = comb["values"]
    ok = len(used) == len(occ) and len(set(used)) == len(used) and sorted(values) == sorted(set(used)) and sorted(values.values()) == sorted(v for _, v in occ)
    cross_tree = shape[2] and len(set(used)) < len(used)
    return ok, cross_tree


def _names_check(s0, s1, s3, s4, n0, n1, n2, n3) -> bool:
    if B.SETUP_ERROR:
        return False
    shape = (True if s0 else False, True if s1 else False, True, True if s3 else False, True if s4 else False)
    names = [pick(n, len(ARG_NAMES)) for n in (n0, n1, n2, n3)]
    with NoTracing():
        ok, cross_tree = _case(shape, names)
    if not ok:
        # names are made unique per top-level field only: `a` in field 0 and its child give a_0, a_0_1; `a_0` in field 1 gives a_0_1 again
        if cross_tree:
            return known("C14-variable-name-collision-across-top-level-fields")
        return False
    return True


def parts_source() -> str:
    out = ["from harness.C14_names import _names_check", ""]
    i = 0
    for a in (False, True):
        for b in (False, True):
            for c in (False, True):
                for d in (False, True):
                    out.append(f"def check_names_{i}(n0: int, n1: int, n2: int, n3: int) -> bool:\n    \"\"\"\n    post: _\n    \"\"\"\n    return _names_check({a}, {b}, {c}, {d}, n0, n1, n2, n3)\n")
                    i += 1
    return "\n".join(out)
