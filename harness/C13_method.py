"""C13 harness, generated side: the generated subscription method hands execute_ws exactly the operation document, the
operation name and the caller's variables (under GraphQL names), and yields model_validate(data) for every payload in order.

Real generator output (snake case on / off); CrossHair chooses the operation, the caller's intent per variable (omitted /
None / value) and the number of payloads; operations include variables named like the generated method's own locals."""
import importlib
import os
import sys
import tempfile

from harness._h import NoTracing, opened_auditwall, pick
from vlib import gen

SDL = """
type Query { a: Int }
type Subscription { ticks(query: String, variables: Int, n: Int): Int! items(f: Flt, operationName: String, data: ID, response: Boolean): Item }
type Item { id: ID! }
input Flt { a: Int, camelCase: String }
"""
# (name, text, [(graphql variable, python value when given)], payloads)
OPS = [
    ("Plain", "subscription Plain { ticks }", [], [{"ticks": 1}, {"ticks": 2}]),
    ("WithArgs", "subscription WithArgs($n: Int) { ticks(n: $n) }", [("n", 5)], [{"ticks": 1}, {"ticks": 2}]),
    ("Clash", "subscription Clash($query: String, $variables: Int) { ticks(query: $query, variables: $variables) }", [("query", "q"), ("variables", 7)],
     [{"ticks": 3}, {"ticks": 4}]),
    ("ClashTwo", "subscription ClashTwo($operationName: String, $data: ID, $response: Boolean) { items(operationName: $operationName, data: $data, response: $response) { id } }",
     [("operationName", "o"), ("data", "d"), ("response", True)], [{"items": {"id": "1"}}, {"items": None}]),
    ("CamelVar", "subscription CamelVar($theFilter: Flt) { items(f: $theFilter) { id } }", [("theFilter", "MODEL")], [{"items": {"id": "2"}}, {"items": {"id": "3"}}]),
]

_PK = {}
SETUP_ERROR = ""
try:
    with opened_auditwall():
        _BASE = tempfile.mkdtemp(prefix="vh13m_", dir="/tmp")
        for _name, _snake in (("snake", True), ("plain", False)):
            _r = gen.generate({"schema": SDL, "queries": "\n".join(o[1] for o in OPS), "config": {"convert_to_snake_case": _snake, "target_package_name": "p13_" + _name}})
            if not _r["ok"]:
                raise RuntimeError(f"generation failed: {_r['exc_type']}: {_r['exc_msg']}")
            _d = os.path.join(_BASE, "p13_" + _name)
            os.makedirs(_d)
            for _fn, _src in _r["files"].items():
                with open(os.path.join(_d, _fn), "w") as _f:
                    _f.write(_src)
        sys.path.insert(0, _BASE)
        for _name in ("snake", "plain"):
            _PK[_name] = importlib.import_module("p13_" + _name)
except Exception as _e:  # the package does not generate / load: every path below fails (reported after replay)
    SETUP_ERROR = f"{type(_e).__name__}: {_e}"


def method_for(pkg, op_name):
    """the generated method whose body names this operation"""
    import inspect

    for name, fn in vars(pkg.Client).items():
        if inspect.isfunction(fn) and not name.startswith("_"):
            try:
                src = inspect.getsource(fn)
            except OSError:
                continue
            if f'operation_name="{op_name}"' in src:
                return name, fn
    return None, None


def drive(which: str, oi: int, states, nframes: int):
    """-> (recorded execute_ws kwargs, yielded objects, error)"""
    from graphql import parse, print_ast

    pkg = _PK[which]
    name, text, variables, payloads = OPS[oi]
    mname, fn = method_for(pkg, name)
    if fn is None:
        return None, None, "no generated method for " + name
    import inspect

    params = [p for p in inspect.signature(fn).parameters.values()][1:]
    params = [p for p in params if p.kind == p.POSITIONAL_OR_KEYWORD]
    if len(params) != len(variables):
        return None, None, f"{mname}: {len(params)} parameters for {len(variables)} variables"
    kwargs, expected_vars = {}, {}
    unset = pkg.base_model.UNSET if hasattr(pkg, "base_model") else importlib.import_module(pkg.__name__ + ".base_model").UNSET
    for (gname, value), p, st in zip(variables, params, states):
        if value == "MODEL":
            value = pkg.Flt(a=1)
        if st == 0:
            expected_vars[gname] = unset
        elif st == 1:
            kwargs[p.name] = None
            expected_vars[gname] = None
        else:
            kwargs[p.name] = value
            expected_vars[gname] = value
    rec = []
    frames = payloads[:nframes]

    async def execute_ws(**kw):
        rec.append(kw)
        for d in frames:
            yield d

    client = pkg.Client.__new__(pkg.Client)
    client.execute_ws = execute_ws
    out = []
    try:
        agen = fn(client, **kwargs)
        while True:
            co = agen.__anext__()
            try:
                co.send(None)
                return rec, out, "generated method suspended"
            except StopIteration as s:
                out.append(s.value)
            except StopAsyncIteration:
                break
    except Exception as e:  # noqa: BLE001
        return rec, out, f"{type(e).__name__}: {str(e)[:150]}"
    if len(rec) != 1:
        return rec, out, f"execute_ws called {len(rec)} times"
    kw = rec[0]
    probs = []
    try:
        if print_ast(parse(kw.get("query"))) != print_ast(parse(text)):
            probs.append(f"query handed to execute_ws is not the operation document: {str(kw.get('query'))[:80]!r}")
    except Exception:  # noqa: BLE001
        probs.append(f"query handed to execute_ws does not parse: {str(kw.get('query'))[:80]!r}")
    if kw.get("operation_name") != name:
        probs.append(f"operation_name {kw.get('operation_name')!r}")
    got_vars = kw.get("variables")
    if not isinstance(got_vars, dict) or set(got_vars) != set(expected_vars) or any(got_vars[k] is not v and got_vars[k] != v for k, v in expected_vars.items()):
        probs.append(f"variables {got_vars!r} instead of {expected_vars!r}")
    model = getattr(pkg, name)
    want = [model.model_validate(d) for d in frames]
    if out != want:
        probs.append(f"yielded {out!r} instead of {want!r}")
    return rec, out, "; ".join(probs)


def _check(which: str, op: int, s0: int, s1: int, s2: int, nframes: int) -> bool:
    if SETUP_ERROR:
        return False
    oi = pick(op, len(OPS))
    nv = len(OPS[oi][3 - 1])
    states = [pick(s, 3) for s in (s0, s1, s2)[:nv]]
    nf = pick(nframes, 3)
    with NoTracing():
        try:
            _rec, _out, err = drive(which, oi, states, nf)
        except Exception:  # noqa: BLE001
            return False
    return not err


def check_generated_subscription_snake(op: int, s0: int, s1: int, s2: int, nframes: int) -> bool:
    """
    post: _
    """
    return _check("snake", op, s0, s1, s2, nframes)


def check_generated_subscription_plain(op: int, s0: int, s1: int, s2: int, nframes: int) -> bool:
    """
    post: _
    """
    return _check("plain", op, s0, s1, s2, nframes)


def twin_generated_clash_two_payloads(op: int, s0: int, s1: int, nframes: int) -> bool:
    """
    post: _
    """
    if SETUP_ERROR:
        return True
    oi = pick(op, len(OPS))
    states = [pick(s0, 3), pick(s1, 3), 0][: len(OPS[oi][2])]
    nf = pick(nframes, 3)
    with NoTracing():
        rec, out, err = drive("snake", oi, states, nf)
    return not (not err and OPS[oi][0] == "Clash" and nf == 2 and len(out) == 2 and states == [2, 2])


# ---- the real library: handshake against a websockets server on the loopback interface ----------------------------------
def real_handshake(variant: int, with_headers: bool):
    """-> (status, detail): run execute_ws of the real base client against a real websockets server (installed version) that
    speaks graphql-transport-ws: ack, one next, complete.  status: ok | failed | no_loopback"""
    import asyncio
    import json

    try:
        import websockets
    except Exception as e:  # noqa: BLE001
        return "failed", f"websockets not importable: {e}"
    if variant == 0:
        from ariadne_codegen.client_generators.dependencies.async_base_client import AsyncBaseClient as C
    else:
        from ariadne_codegen.client_generators.dependencies.async_base_client_open_telemetry import AsyncBaseClientOpenTelemetry as C
    seen = {}

    async def handler(ws):
        seen["subprotocol"] = ws.subprotocol
        seen["headers"] = {k.lower(): v for k, v in ws.request.headers.items()} if getattr(ws, "request", None) is not None else {}
        init = json.loads(await ws.recv())
        seen["init"] = init
        await ws.send(json.dumps({"type": "connection_ack"}))
        sub = json.loads(await ws.recv())
        seen["subscribe"] = sub
        await ws.send(json.dumps({"type": "next", "id": sub["id"], "payload": {"data": {"a": 1}}}))
        await ws.send(json.dumps({"type": "complete", "id": sub["id"]}))

    async def main():
        try:
            server = await websockets.serve(handler, "127.0.0.1", 0, subprotocols=["graphql-transport-ws"])
        except OSError as e:
            return "no_loopback", str(e)
        try:
            port = server.sockets[0].getsockname()[1]
            kw = {"ws_headers": {"X-Conf": "1"}} if with_headers else {}
            c = C(url="http://x", ws_url=f"ws://127.0.0.1:{port}", **kw)
            out = []
            try:
                async for d in c.execute_ws("subscription S { a }", "S"):
                    out.append(d)
            except Exception as e:  # noqa: BLE001
                return "failed", f"{type(e).__name__}: {str(e)[:160]}"
            if out != [{"a": 1}]:
                return "failed", f"yielded {out}"
            if seen.get("subprotocol") != "graphql-transport-ws" or (seen.get("init") or {}).get("type") != "connection_init":
                return "failed", f"server saw {seen}"
            if with_headers and seen.get("headers", {}).get("x-conf") != "1":
                return "failed", f"configured header not received: {seen.get('headers')}"
            return "ok", ""
        finally:
            server.close()
            await server.wait_closed()

    return asyncio.run(asyncio.wait_for(main(), 20))


def check_real_server_handshake(variant: int, with_headers: bool) -> bool:
    """
    post: _
    """
    v = pick(variant, 2)
    wh = True if with_headers else False
    with NoTracing():
        with opened_auditwall():
            try:
                status, detail = real_handshake(v, wh)
            except Exception as e:  # noqa: BLE001
                status, detail = "failed", f"{type(e).__name__}: {e}"
        if status in ("ok", "no_loopback"):
            return True
        listed = "unexpected keyword argument 'extra_headers'" in detail
    if listed:
        from harness._h import known

        return known("C13-ws-connect-extra-headers-rejected")
    return False
